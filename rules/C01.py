"""C01 - byte buffers and cursors: bounds, failure atomicity, growth order, secure zero (DESIGN.md section 4, C01)."""
from sa import rules as RU
from sa.awslib import AwsHooks, in_bounds, MEMFNS, ASSUMPTIONS as LIB_ASSUMPTIONS
from sa.bounds import access_sites, addr_size, EntryExtents
from sa.cfg import dominators, ev_dominates, Typestate
from sa.num import Num, Poly, Limit, entails
from sa.rules import argstr, where

BB = "source/byte_buf.c"

DECIDED = [
    "INIT-FIRST: a byte-buffer initialiser cleans its object up (failure paths) only after it wrote the whole object itself on that path",
    "NARROW: no implicit integer conversion in byte_buf.c / string.c / file.c drops bits of a size (NUM at every narrowing conversion; shared with C16)",
    "BOUND: every explicit memory access in byte_buf.c (memcpy/memset/memchr/memcmp, subscripts, dereferences) through a buffer, cursor, table or fresh allocation is inside that object, for all lengths and capacities (NUM: relational abstract interpretation with no-wrap side conditions)",
    "NOWRAP: every value stored into a length/capacity field is an exact (non-wrapping) function of the entry values",
    "INV: every function that stores to len/capacity/buffer of a caller's byte_buf returns with len <= capacity",
    "ATOMIC-FAIL: on every path to a failure return (AWS_OP_ERR / false / NULL view) no field of a caller-visible object differs from its entry value and no byte was written through a caller's pointer (documented exceptions listed)",
    "KEEP: appending/writing operations write only at offsets >= the buffer's length at entry",
    "GROW-ORDER: dynamic growth copies old contents and the appended bytes before scrubbing and releasing the old block, then installs the new block; the secure variants scrub before release",
    "CSTR-READ (under BOUND): aws_array_eq_c_str{,_ignore_case} read the NUL-terminated argument at index k only after every byte below k was read and found non-NUL (inside the scan at its counter with a return on NUL, or at the loop bound after the scan completed)",
    "VIEW: every cursor / buffer a function hands out (returned by value, or stored through a cursor/buffer parameter) describes bytes inside one tracked object - 0 <= ptr - base, (ptr - base) + len <= extent(base), for buffers also capacity <= extent of the allocation - and a NULL pointer comes with length 0 (NUM, all lengths; entry views are assumed valid: NULL => empty)",
    "SECURE-ZERO: the zeroing memset is followed by a volatile asm barrier that takes the buffer as operand with a memory clobber",
]
NOT_DECIDED = ["byte-for-byte content equality across call sequences", "accesses through caller-provided raw pointers without a stated extent (out-parameters)"]
ASSUMPTIONS = list(LIB_ASSUMPTIONS) + ["views and buffers handed in are valid (aws_byte_cursor_is_valid / aws_byte_buf_is_valid): a NULL pointer comes with length and capacity 0",
                                       "distinct pointer parameters designate distinct record objects (most are declared restrict)",
                                       "caller-provided (pointer, length) parameter pairs listed in rules/C01.py PAIRS are readable/writable for that length (the functions' documented preconditions)"]

# documented (pointer parameter -> extent) contracts: name of the length parameter, or a constant
PAIRS = {
    "aws_array_eq_ignore_case": {"array_a": "len_a", "array_b": "len_b"},
    "aws_array_eq": {"array_a": "len_a", "array_b": "len_b"},
    "aws_array_eq_c_str_ignore_case": {"array": "array_len"},
    "aws_array_eq_c_str": {"array": "array_len"},
    "aws_hash_array_ignore_case": {"array": "len"},
    "aws_byte_buf_append_with_lookup": {"lookup_table": 256},
    "aws_byte_cursor_compare_lookup": {"lookup_table": 256},
    "aws_byte_buf_write": {"src": "len"},
    "aws_byte_cursor_read": {"dest": "len"},
    "aws_byte_buf_init_copy_from_cursor": {},
    "aws_byte_cursor_from_array": {},
}

# outputs documented to be reset / partially filled on failure
EXEMPT_FAIL = {
    "aws_byte_buf_init": {"buf"}, "aws_byte_buf_init_copy": {"dest"}, "aws_byte_buf_init_copy_from_cursor": {"dest"},
    "aws_byte_buf_init_cache_and_update_cursors": {"dest"}, "aws_byte_buf_advance": {"output"},
    "aws_byte_buf_cat": {"dest"}, "aws_byte_cursor_split_on_char": {"output"}, "aws_byte_cursor_split_on_char_n": {"output"},
    "aws_byte_cursor_next_split": {"substr"},  # iteration state: zeroed when done
    "aws_byte_cursor_find_exact": set(),
}
KEEP_EXEMPT = {"aws_byte_buf_secure_zero", "aws_byte_buf_reset", "aws_byte_buf_clean_up", "aws_byte_buf_clean_up_secure", "aws_byte_buf_init", "aws_byte_buf_init_copy",
               "aws_byte_buf_init_copy_from_cursor", "aws_byte_buf_init_cache_and_update_cursors", "aws_byte_buf_from_array", "aws_byte_buf_from_empty_array", "aws_byte_buf_from_c_str"}


def tracked_base(fn, n):
    """does the address expression syntactically go through a library buffer field, a local array or an allocation?"""
    for x in fn.walk(n, follow_refs=True):
        if x["k"] == "member" and (x.get("rec"), x["f"]) in (("aws_byte_buf", "buffer"), ("aws_byte_cursor", "ptr"), ("aws_array_list", "data"), ("aws_string", "bytes")):
            return True
        if x["k"] == "call" and x.get("callee") in ("aws_mem_acquire", "aws_mem_calloc"):
            return True
        if x["k"] == "var" and fn.unit.types[x["t"]].get("arr") is not None:
            return True
    return False


def failure_kind(num, st, fn, ret_elem):
    """'fail' when this state returns a failure value, 'ok' for success, None when unknown"""
    rt = fn.rettype()
    if not ret_elem["a"] or ret_elem["a"][0] is None:
        return None
    if rt.get("rec") == "aws_byte_cursor":
        rv = fn.d(ret_elem["a"][0])
        k = num.key(rv, st) if rv is not None else None
        if k and (k + ".ptr") in st.env:
            p = st.env[k + ".ptr"]
            if p.is_const():
                return "fail" if p.cval() == 0 else "ok"
            if entails(st, Poly.const(1) - p):
                return "ok"
        return None
    v = num.val(ret_elem["a"][0], st)
    if v is None:
        return None
    if rt.get("bool"):
        if v.is_const():
            return "fail" if v.cval() == 0 else "ok"
        return None
    if rt.get("w") == 32 and not rt.get("u"):
        if v.is_const():
            return "fail" if v.cval() != 0 else "ok"
        if entails(st, v + 1) or entails(st, Poly.const(1) - v):
            return "fail"
    return None


def analyse(ctx, replace=None, only=None):
    R = ctx.R
    P = ctx.program([BB, "source/common.c", "source/string.c", "source/file.c", "source/array_list.c"], "ship", replace=replace)
    fns = P.functions_in("source/byte_buf.c")
    R.require(len(fns) >= 80, "only %d functions found in byte_buf.c" % len(fns))
    n_ok = 0
    n_und = 0
    n_view = 0
    hooks = AwsHooks()
    for f in fns:
        R.fn(f)
        pairs = PAIRS.get(f.name)
        h = EntryExtents(hooks, f, pairs) if pairs else hooks
        num = Num(f, P, h)
        sites = access_sites(f)
        rets = [e for b in f.blocks.values() for e in b.elems if e["k"] == "ret"]
        try:
            states = num.states_at({s[0] for s in sites} | {r["id"] for r in rets})
        except Limit as ex:
            R.broken("NUM trace limit in %s: %s" % (f.name, ex))
            continue
        # ---------------- BOUND and KEEP
        entry_len = {}
        for eid, kind, n in sites:
            sts = states.get(eid, [])
            inst = "%s:%s:%s" % (f.name, kind, f.show(n)[:60])
            if not sts:
                continue  # dead code (e.g. allocation-failure arms: aws_mem_acquire never returns NULL)
            status, det = "ok", ""
            for st in sts:
                s2 = st.copy()
                for (D, sz, mode) in addr_size(num, s2, kind, n):
                    r = in_bounds(s2, D, sz)
                    if r[0] == "fail":
                        status, det = "fail", r[1] + " | branch trail " + str(s2.trail[-5:])
                        break
                    if r[0] == "untracked" and status == "ok":
                        status, det = "untracked", r[1]
                    elif r[0] == "ok" and not det:
                        det = r[1]
                    # KEEP: a write into the storage of a caller's buffer starts at or after its length at entry
                    if r[0] == "ok" and len(r) > 3 and mode == "w" and f.name not in KEEP_EXEMPT and n.get("callee") != "aws_secure_zero":
                        orig = s2.notes.get("orig", {})
                        for k, oa in orig.items():
                            if oa == r[2] and k.endswith(")->buffer") and num.base_atom(k) in s2.notes.get("patoms", ()):
                                lk = k[:-6] + "len"
                                if orig.get(lk):
                                    okk = entails(s2, Poly.atom(orig[lk]) - r[3])
                                    R.check(okk, "KEEP", "%s:%s" % (f.name, f.show(n)[:50]), where(f, n), "write starts at offset %r >= length at entry" % r[3],
                                            "a write into the buffer starts at offset %r which is not provably >= its length at entry: previously written bytes can be overwritten" % r[3])
                if status == "fail":
                    break
            if status == "ok":
                n_ok += 1
                R.ok("BOUND", inst, where(f, n), det)
            elif status == "fail":
                R.fail("BOUND", inst, where(f, n), "cannot establish that the access stays inside its object: " + det)
            else:
                if tracked_base(f, n):
                    R.fail("BOUND", inst, where(f, n), "access through a library buffer whose bound cannot be established: " + det)
                else:
                    n_und += 1
        # ---------------- per-return rules
        writes_fields = any(e.mode in ("w", "rw") for e in f.field_accesses(rec="aws_byte_buf", field=("len", "capacity", "buffer")))
        exempt = EXEMPT_FAIL.get(f.name, set())
        ptypes = {p["n"]: f.unit.types[p["t"]] for p in f.params}
        vstat = {}
        for r in rets:
            for st in states.get(r["id"], []):
                # NOWRAP
                for (line, rec, fld, val) in st.notes.get("wrapstore", []):
                    if (rec, fld) in (("aws_byte_buf", "len"), ("aws_byte_buf", "capacity"), ("aws_byte_cursor", "len")):
                        R.fail("NOWRAP", "%s:%s.%s" % (f.name, rec, fld), "%s:%d in %s()" % (f.file.replace("/repo/", ""), line, f.name),
                               "the value stored into %s.%s may have wrapped around (%s): the length no longer describes the storage" % (rec, fld, val))
                # INV
                if writes_fields:
                    for pn, pt in ptypes.items():
                        if pt.get("rec") == "aws_byte_buf" and pt.get("ptr"):
                            pa = st.env.get("v:" + pn)
                            if pa is None:
                                continue
                            kl, kc = "(%r)->len" % pa, "(%r)->capacity" % pa
                            if kl in st.env and kc in st.env:
                                okv = entails(st, st.env[kl] - st.env[kc])
                                R.check(okv, "INV", "%s:%s" % (f.name, pn), "%s:%d in %s()" % (f.file.replace("/repo/", ""), r.get("loc", [0])[0], f.name),
                                        "returns with %s->len <= %s->capacity" % (pn, pn),
                                        "a path returns with %s->len = %r which is not provably <= capacity = %r" % (pn, st.env[kl], st.env[kc]))
                # VIEW
                view_outputs(R, num, st, f, r, ptypes, vstat)
                # ATOMIC-FAIL
                fk = failure_kind(num, st, f, r)
                if fk == "fail":
                    changed = []
                    pat = st.notes.get("patoms", set())
                    exempt_atoms = set()
                    for pn in exempt:
                        v = st.env.get("v:" + pn)
                        if v is not None:
                            exempt_atoms |= v.atoms()
                    for k, v in st.env.items():
                        b = num.base_atom(k)
                        if b is None or b not in pat or b in exempt_atoms or k.endswith("->"):
                            continue
                        if (st.meta.get(k) or (None,))[0] not in ("aws_byte_buf", "aws_byte_cursor", "aws_array_list"):
                            continue
                        o = st.notes.get("orig", {}).get(k)
                        if o is None or v != Poly.atom(o):
                            changed.append("%s := %r" % (k, v))
                    memw = [m for m in st.notes.get("memw", []) if not all(a.startswith("&") or a.startswith("blk'") for a in _atoms_of(m[1])) and not (_atoms_of(m[1]) & exempt_atoms)]
                    # bytes written into storage reached through an exempt output are not observable
                    memw = [m for m in memw if not _through(m[1], exempt_atoms, st)]
                    okv = not changed and not memw
                    R.check(okv, "ATOMIC-FAIL", f.name, "%s:%d in %s()" % (f.file.replace("/repo/", ""), r.get("loc", [0])[0], f.name),
                            "failure return with every caller-visible field at its entry value and no byte written",
                            "a failure return is reached after modifying caller-visible state: %s %s (trail %s)" % (changed[:3], ["line %d -> %s" % m for m in memw[:3]], st.trail[-6:]))
        for (what, line), (status, det, cnt) in sorted(vstat.items()):
            inst = "%s:%s" % (f.name, what)
            loc = "%s:%d in %s()" % (f.file.replace("/repo/", ""), line, f.name)
            if status == "ok":
                n_view += 1
                R.ok("VIEW", inst, loc, "the produced view/buffer lies inside a tracked object in all %d states: %s" % (cnt, det))
            elif status == "fail":
                R.fail("VIEW", inst, loc, "a produced view/buffer is not provably inside the object it was derived from: " + det)
    R.require(n_view >= VIEW_MIN, "only %d produced views/buffers were proven inside their objects (confirmed: >= %d)" % (n_view, VIEW_MIN))
    R.require(n_ok >= 30, "only %d bounds obligations discharged in byte_buf.c (confirmed: >= 36)" % n_ok)
    R.notes.append("%d accesses through caller-provided raw pointers without a stated extent were not checked" % n_und)
    grow_order(R, P)
    secure_zero(R, P)
    cstr_scans(R, P)
    checked_results(R, P, fns)
    init_first(R, P)
    from rules import C16 as _c16
    _c16.narrowing(R, P, files=("source/byte_buf.c", "source/string.c", "source/file.c"), floor=1, hooks=AwsHooks())


VIEW_MIN = 90


def init_first(R, P):
    """INIT-FIRST: an initialiser of a byte buffer (a function with `init` in its name and a `struct aws_byte_buf *` parameter)
    owns nothing of what the caller's object held before the call: on every path, the first thing that looks at the object -
    in particular the clean-up on its failure paths - comes after the function itself wrote the whole object (zeroed it, assigned
    it, or initialised it).  Otherwise a failed init wipes and releases whatever the stale fields point to."""
    from sa.cfg import edges
    CLEAN = {"aws_byte_buf_clean_up", "aws_byte_buf_clean_up_secure", "aws_byte_buf_secure_zero", "aws_byte_buf_reset"}
    n = 0
    for f in sorted((g for g in P.by_key.values() if getattr(g, "blocks", None) and "init" in g.name and any(g.file.endswith(x) for x in ("source/byte_buf.c", "source/file.c", "source/string.c"))), key=lambda g: (g.file, g.line)):
        ps = [p_["n"] for p_ in f.params if f.unit.types[p_["t"]].get("ptr") and f.unit.types[p_["t"]].get("rec") == "aws_byte_buf" and not f.unit.types[p_["t"]].get("const")]
        for pn in ps[:1]:
            def names_p(node):
                t = f.show(node).replace("(", "").replace(")", "").replace(" ", "")
                while t.startswith("&*"):
                    t = t[2:]
                return t == pn or f.canon(t) == pn

            def kind(e):
                if e.kind == "call":
                    c = e.node.get("callee") or ""
                    a0 = RU.arg(f, e.node, 0) if e.node.get("a") else None
                    if a0 is None or not names_p(a0):
                        return None
                    if c in CLEAN:
                        return "clean"
                    if c in ("memset", "__builtin_memset", "__builtin___memset_chk") or "byte_buf_init" in c or c == "aws_byte_buf_from_array" or c == "aws_byte_buf_from_empty_array":
                        return "init"
                if e.kind == "access" and e.mode == "w" and e.node["k"] == "un" and e.node["op"] == "deref" and names_p(e.node["a"][0]):
                    return "init"
                return None
            evs = f.events()
            cleans = [e for b in evs for e in evs[b] if kind(e) == "clean"]
            if not cleans:
                continue
            entry = max(f.blocks)  # clang numbers the entry block highest
            unin = {entry: True}
            bad = []
            work = [entry]
            seen_out = {}
            while work:
                b = work.pop()
                st = unin.get(b, False)
                for e in evs.get(b, []):
                    k = kind(e)
                    if k == "clean" and st and e not in bad:
                        bad.append(e)
                    elif k == "init":
                        st = False
                if seen_out.get(b) == st:
                    continue
                seen_out[b] = st
                for s_, _, _ in edges(f, b):
                    if st and not unin.get(s_, False):
                        unin[s_] = True
                        work.append(s_)
                    elif s_ not in seen_out:
                        unin.setdefault(s_, False)
                        work.append(s_)
            R.fn(f)
            for e in cleans:
                n += 1
                R.check(e not in bad, "INIT-FIRST", "%s:%s@%d" % (f.name, e.node.get("callee"), e.node.get("loc", [0])[0]), where(f, e), "the object was written by this initialiser on every path to its clean-up",
                        "%s(%s) is reached on a path on which %s has not yet written *%s: a failed initialisation scrubs and releases whatever the caller's stale object pointed to" % (e.node.get("callee"), pn, f.name, pn))
    R.require(n >= 1, "no clean-up of the object under initialisation found in any byte-buffer initialiser (confirmed: s_byte_buf_init_from_file_impl)")


def view_outputs(R, num, st, f, r, ptypes, vstat):
    """VIEW: every cursor / buffer value this return hands out (by value, or through a cursor/buffer parameter whose
    fields it stored) describes bytes inside one tracked object: 0 <= ptr - base and (ptr - base) + len <= extent(base);
    for buffers additionally capacity <= extent.  A NULL pointer must come with length 0."""
    outs = []
    rt = f.rettype()
    line = r.get("loc", [0])[0]
    if rt.get("rec") in ("aws_byte_cursor", "aws_byte_buf") and not rt.get("ptr") and r["a"] and r["a"][0] is not None:
        rv = f.d(r["a"][0])
        k = num.key(rv, st) if rv is not None else None
        if k:
            outs.append(("return", rt["rec"], k + "."))
    written = st.notes.get("orig", {})
    for pn, pt in ptypes.items():
        if pt.get("rec") in ("aws_byte_cursor", "aws_byte_buf") and pt.get("ptr") and not pt.get("const_pointee"):
            pa = st.env.get("v:" + pn)
            if pa is None or len(pa.t) != 1:
                continue
            pre = "(%r)->" % pa
            fl = ("ptr", "len") if pt["rec"] == "aws_byte_cursor" else ("buffer", "len", "capacity")
            o = st.notes.get("orig", {})
            if any(pre + x in st.env and (o.get(pre + x) is None or st.env[pre + x] != Poly.atom(o[pre + x])) for x in fl):
                outs.append((pn, pt["rec"], pre))
    for what, rec, pre in outs:
        pf, sizes = ("ptr", ("len",)) if rec == "aws_byte_cursor" else ("buffer", ("len", "capacity"))
        p = st.env.get(pre + pf)
        for sf in sizes:
            n = st.env.get(pre + sf)
            key = ("%s.%s" % (what, sf), line)
            old = vstat.get(key, ("ok", "", 0))
            if p is None or n is None:
                if old[0] == "ok":
                    vstat[key] = ("untracked", "field not tracked", old[2])
                continue
            if p.is_const() and p.cval() == 0:
                s0 = _null_means_empty(st)
                if entails(s0, n) and entails(s0, -n):
                    vstat[key] = (old[0], old[1] or "NULL with length 0", old[2] + 1)
                else:
                    vstat[key] = ("fail", "a NULL %s comes with %s = %r (trail %s)" % (pf, sf, n, st.trail[-5:]), old[2] + 1)
                continue
            res = in_bounds(st.copy(), p, n)
            if res[0] == "ok":
                vstat[key] = (old[0], old[1] or res[1], old[2] + 1)
            elif res[0] == "fail":
                vstat[key] = ("fail", "%s = %r, %s = %r: %s (trail %s)" % (pf, p, sf, n, res[1], st.trail[-5:]), old[2] + 1)
            elif old[0] == "ok":
                vstat[key] = ("untracked", res[1], old[2] + 1)


def _null_means_empty(st):
    """the validity precondition of views and buffers handed in: a NULL pointer comes with length (and capacity) 0.
    Applied where the path has established that an entry pointer is NULL."""
    s0 = st.copy()
    o = st.notes.get("orig", {})
    for k, a in o.items():
        if a is None:
            continue
        for pf, sizes in (("ptr", ("len",)), ("buffer", ("len", "capacity"))):
            if k.endswith(">" + pf) or k.endswith("." + pf):
                P = Poly.atom(a)
                if entails(st, P) and entails(st, -P):
                    for sf in sizes:
                        z = o.get(k[:-len(pf)] + sf)
                        if z is not None:
                            s0.add(Poly.atom(z))
                            s0.add(-Poly.atom(z))
    return s0


def checked_results(R, P, fns):
    """NOWRAP/checked: the overflow verdict of a checked addition / multiplication decides at once: each aws_*_checked call is
    a branch condition and no successful return is reachable from its `overflowed` outcome (a verdict parked in a variable
    can be overwritten by the next loop iteration, and the wrapped value is then returned as a success)."""
    import re
    from sa.cfg import edges
    n = 0
    for f in fns:
        calls = [e for e in f.all_events() if e.kind == "call" and re.match(r"aws_(add|mul|sub)_(u32|u64|size)_checked$", e.node.get("callee") or "")]
        for e in calls:
            n += 1
            tb = None
            for b in f.blocks.values():
                if b.cond is None:
                    continue
                cc, neg = RU.cond_call(f, b.cond)
                if cc is not None and cc.get("id") == e.node["id"]:
                    tb = (b, not neg)  # polarity of the edge on which the call returned non-zero
            inst = "%s:%s:line%d" % (f.name, e.node["callee"], e.node.get("loc", [0])[0])
            if tb is None:
                R.fail("NOWRAP", "checked-result:" + inst, where(f, e), "the result of %s is not tested by a branch of its own (it flows into a variable or a larger expression): a later assignment can replace an `overflowed` verdict, and the wrapped value is used as if it were exact" % e.node["callee"])
                continue
            b, pol = tb
            seen, work = set(), [s_ for s_, c_, p_ in edges(f, b.id) if p_ == pol]
            while work:
                x = work.pop()
                if x in seen:
                    continue
                seen.add(x)
                work.extend(s_ for s_, c_, p_ in edges(f, x))
            bad = []
            for r_ in f.returns():
                if r_.blk in seen and r_.node["a"]:
                    v = RU.uncast(f, r_.node["a"][0])
                    rt = f.rettype()
                    cv = f.is_const(v) if v is not None else None
                    if (rt.get("bool") and cv == 1) or (not rt.get("bool") and cv == 0):
                        bad.append(r_.node["loc"][0])
            R.check(not bad, "NOWRAP", "checked-result:" + inst, where(f, e), "after an overflow verdict only failing returns are reachable",
                    "a successful return (line %s) is reachable after %s reported an overflow: the wrapped value is handed out as the result" % (bad, e.node["callee"]))
    R.require(n >= 6, "only %d checked-arithmetic calls found in byte_buf.c" % n)


CSTR_SCANS = {"aws_array_eq_c_str": "c_str", "aws_array_eq_c_str_ignore_case": "c_str"}


def cstr_scans(R, P):
    """CSTR-READ: a NUL-terminated string argument is only known to extend up to its first NUL.  In the functions that compare
    an array with a C string byte by byte, the string may be read at index k only after every byte below k has been read and
    found non-NUL: inside the scanning loop at the loop counter (the loop returns as soon as the byte read is NUL), or - at
    the loop bound - after the loop has run to completion.  Any other read can lie behind the terminator."""
    n = 0
    for name, par in sorted(CSTR_SCANS.items()):
        f = P.fn(name)
        if not R.require(f is not None, "%s not found" % name):
            continue
        alias = {par}
        for e in f.all_events():
            if e.kind == "decl":
                for v in e.node["vars"]:
                    if v.get("init") is not None and any(x["k"] == "var" and x["n"] in alias for x in f.walk(v["init"], follow_refs=True)) and f.unit.types[v["t"]].get("ptr"):
                        alias.add(v["n"])
        loops = Num(f, P, None).loops()
        dom = dominators(f)
        sites = []
        for b in f.blocks.values():
            for el in list(b.elems) + ([b.cond] if b.cond is not None else []):
                for x in f.walk(el):
                    if x["k"] == "index" or (x["k"] == "un" and x["op"] == "deref"):
                        base = f.d(x["a"][0])
                        if any(y["k"] == "var" and y["n"] in alias for y in f.walk(base, follow_refs=True)):
                            sites.append((b.id, el, x))
        if not R.require(len(loops) == 1 and sites, "%s: expected one scanning loop and reads of %s" % (name, par)):
            continue
        (h, body), = loops.items()
        hc = f.blocks[h].cond
        t = RU.cmp_norm(f, hc, True) if hc is not None else None
        counter, bound = (f.show(t[0]), f.show(t[2])) if t and t[1] == "<" and t[2] is not None else (None, None)
        R.require(counter is not None, "%s: loop condition is not `counter < bound`" % name)
        for blk, el, x in sites:
            n += 1
            idx = f.show(x["a"][1]) if x["k"] == "index" else None
            inst = "%s:%s" % (name, f.show(x)[:40])
            if blk in body:
                # read at the counter, and the value read ends the scan when it is NUL
                var = None
                if el["k"] == "decl":
                    for v in el["vars"]:
                        if v.get("init") is not None and any(y is x for y in f.walk(v["init"], follow_refs=True)):
                            var = v["n"]
                stops = False
                for r_ in f.returns():
                    if r_.blk in body or any(s_ in body for s_ in dom.get(r_.blk, ())):
                        for c_, pol, b_ in RU.guards(f, r_, dom):
                            g = RU.cmp_norm(f, c_, pol)
                            if g and g[1] == "==" and f.show(RU.uncast(f, g[0])) == var and (g[2] is None or f.is_const(g[2]) == 0) and b_ in body:
                                stops = True
                R.check(idx == counter and var is not None and stops, "BOUND", "cstr-read:" + inst, where(f, x), "read at the loop counter; the scan returns when that byte is NUL",
                        "inside the scan the string is read at `%s` (counter `%s`) or the scan does not stop at a NUL byte: bytes behind the terminator can be read" % (idx, counter))
            else:
                after = h in dom.get(blk, ()) and blk not in body
                R.check(after and idx == bound, "BOUND", "cstr-read:" + inst, where(f, x), "read at the loop bound after the scan found every earlier byte non-NUL",
                        "the string is read at `%s` without the scan having established that the %s earlier bytes are non-NUL (%s): when the string is shorter than the array this reads behind its terminator" % (idx, bound, "before the loop" if not after else "index is not the loop bound"))
    R.require(n >= 4, "only %d C-string reads analysed" % n)


def _atoms_of(s):
    import re
    return set(re.findall(r"[A-Za-z_&][A-Za-z0-9_>&.\-]*'\d+", s))


def _through(addr, exempt_atoms, st):
    return False


def grow_order(R, P):
    f = P.fn("s_aws_byte_buf_append_dynamic")
    if not R.require(f is not None, "s_aws_byte_buf_append_dynamic not found"):
        return
    dom = dominators(f)
    acq = f.calls("aws_mem_acquire")
    rel = [e for e in f.calls("aws_mem_release") if argstr(f, e.node, 1, addr=False) == "to->buffer"]
    zero = [e for e in f.calls("aws_secure_zero") if argstr(f, e.node, 0, addr=False) == "to->buffer"]
    copies = [e for e in f.calls({"memcpy", "memmove"}) if "new_buffer" in (argstr(f, e.node, 0, addr=False) or "")]
    st_buf = [e for e in f.field_accesses(rec="aws_byte_buf", field="buffer", modes=("w",))]
    st_cap = [e for e in f.field_accesses(rec="aws_byte_buf", field="capacity", modes=("w",))]
    R.require(len(rel) == 1 and len(zero) == 1 and len(copies) == 2 and len(st_buf) == 1 and len(st_cap) == 1,
              "append_dynamic: expected 2 copies into the new block, one scrub, one release, one buffer/capacity store (found %d/%d/%d/%d/%d)" % (len(copies), len(zero), len(rel), len(st_buf), len(st_cap)))
    if not (rel and zero and copies and st_buf and st_cap):
        return
    old_copy = [c for c in copies if argstr(f, c.node, 1, addr=False) == "to->buffer"]
    new_copy = [c for c in copies if "from->ptr" in (argstr(f, c.node, 1, addr=False) or "")]
    R.check(len(old_copy) == 1 and argstr(f, old_copy[0].node, 2, addr=False) == "to->len", "GROW-ORDER", "old-contents-copied", where(f, copies[0]), "memcpy(new, to->buffer, to->len) preserves the existing contents",
            "the existing contents are not copied with the old length")
    R.check(len(new_copy) == 1, "GROW-ORDER", "appended-bytes-copied", where(f, copies[0]), "the appended bytes are copied into the new block")
    # all reads of the old block / of `from` (which may alias it) precede scrub and release
    for c in copies:
        for z in zero + rel:
            R.check(z in RU.reach_from(f, c) and c not in RU.reach_from(f, z), "GROW-ORDER", "copy-before-%s" % z.node["callee"], where(f, z),
                    "both copies happen before %s of the old block (the source cursor may point into it)" % z.node["callee"],
                    "%s of the old block can happen before a copy that may still read it (self-append / aliasing cursor loses its bytes)" % z.node["callee"])
    R.check(ev_dominates(f, zero[0], rel[0], dom) or (rel[0] in RU.reach_from(f, zero[0]) and zero[0] not in RU.reach_from(f, rel[0])), "GROW-ORDER", "scrub-before-release", where(f, rel[0]), "scrub precedes release")
    gs = [f.show(c) for c, p, b in RU.guards(f, zero[0], dom) if p]
    R.check(any("clear_released_memory" in g for g in gs), "GROW-ORDER", "scrub-when-requested", where(f, zero[0]), "scrub controlled by clear_released_memory (%s)" % gs)
    R.check(argstr(f, zero[0].node, 1, addr=False) == "to->capacity", "GROW-ORDER", "scrub-whole-old-block", where(f, zero[0]), "the whole old capacity is scrubbed",
            "only %s bytes of the old block are scrubbed" % argstr(f, zero[0].node, 1, addr=False))
    for s in st_buf + st_cap:
        R.check(ev_dominates(f, rel[0], s, dom), "GROW-ORDER", "install-after-release:%s" % s.node["f"], where(f, s), "new block installed after the old one is released (old pointer not lost before release)")
    later = [e for e in RU.reach_from(f, rel[0]) if e.kind == "call" and e.node.get("callee") in ("memcpy", "memmove", "aws_secure_zero") and "to->buffer" in f.show(e.node) and not ev_dominates(f, st_buf[0], e, dom)]
    R.check(not later, "GROW-ORDER", "dead-after-release", where(f, rel[0]), "old block not used after release")
    # secure entry points
    for name, want in (("aws_byte_buf_append_dynamic", "0"), ("aws_byte_buf_append_dynamic_secure", "1"), ("aws_byte_buf_append_byte_dynamic", "0"), ("aws_byte_buf_append_byte_dynamic_secure", "1")):
        g = P.fn(name)
        if not R.require(g is not None, "%s not found" % name):
            continue
        cs = g.calls({"s_aws_byte_buf_append_dynamic", "s_aws_byte_buf_append_byte_dynamic"})
        okv = len(cs) == 1 and str(g.is_const(RU.arg(g, cs[0].node, 2))) == want
        R.check(okv, "GROW-ORDER", "secure-flag:%s" % name, "%s()" % name, "passes clear_released_memory=%s" % want, "the %s variant passes the wrong scrub flag" % name)
    g = P.fn("s_aws_byte_buf_append_byte_dynamic")
    if g:
        cs = g.calls("s_aws_byte_buf_append_dynamic")
        R.check(len(cs) == 1 and argstr(g, cs[0].node, 2, addr=False) == "clear_released_memory", "GROW-ORDER", "secure-flag:forwarded", "%s()" % g.name, "flag forwarded")
    g = P.fn("aws_byte_buf_clean_up_secure")
    if R.require(g is not None, "aws_byte_buf_clean_up_secure not found"):
        z = g.calls({"aws_byte_buf_secure_zero", "aws_secure_zero"})
        c = g.calls("aws_byte_buf_clean_up")
        def _only_null_guarded(zc):
            """the scrub is skipped only when there is no storage to scrub (`if (buf->buffer)`) and comes before the release"""
            gs_ = RU.guards(g, zc)
            tn_ = [RU.cmp_norm(g, c_, p_) for c_, p_, b_ in gs_]
            return bool(gs_) and all(t_ is not None and t_[1] == "!=" and t_[2] is None and g.show(RU.uncast(g, t_[0])).endswith("->buffer") for t_ in tn_) and c[0] in RU.reach_from(g, zc) and zc not in RU.reach_from(g, c[0])
        R.check(len(z) >= 1 and len(c) == 1 and (ev_dominates(g, z[0], c[0]) or _only_null_guarded(z[0])), "GROW-ORDER", "clean-up-secure:zero-before-release", "%s()" % g.name, "contents scrubbed before the buffer is released",
                "clean_up_secure does not scrub before releasing")
    g = P.fn("aws_byte_buf_secure_zero")
    if R.require(g is not None, "aws_byte_buf_secure_zero not found"):
        z = g.calls("aws_secure_zero")
        R.check(len(z) == 1 and argstr(g, z[0].node, 1, addr=False).endswith("->capacity"), "GROW-ORDER", "secure-zero-covers-capacity", "%s()" % g.name, "the whole capacity is scrubbed",
                "secure zero covers %s only" % (argstr(g, z[0].node, 1, addr=False) if z else None))
    g = P.fn("aws_string_destroy_secure")
    if g:
        z = g.calls("aws_secure_zero")
        d = g.calls({"aws_mem_release", "aws_string_destroy"})
        R.check(len(z) == 1 and d and all(ev_dominates(g, z[0], x) for x in d), "GROW-ORDER", "string-destroy-secure", "%s()" % g.name, "string bytes scrubbed before release")
    g = P.fn("aws_array_list_clean_up_secure")
    if g:
        z = g.calls("aws_secure_zero")
        d = g.calls("aws_mem_release")
        R.check(len(z) == 1 and d and all(ev_dominates(g, z[0], x) for x in d), "GROW-ORDER", "array-list-clean-up-secure", "%s()" % g.name, "list storage scrubbed before release")


def secure_zero(R, P):
    f = P.fn("aws_secure_zero")
    if not R.require(f is not None, "aws_secure_zero not found in common.c"):
        return
    R.fn(f)
    ms = f.calls({"memset", "__builtin_memset"})
    asms = [e for e in f.all_events() if e.kind == "asm"]
    R.require(len(ms) == 1, "aws_secure_zero: memset not found")
    if ms:
        m = ms[0]
        R.check(f.is_const(RU.arg(f, m.node, 1)) == 0 and argstr(f, m.node, 0, addr=False) == "pBuf" and argstr(f, m.node, 2, addr=False) == "bufsize", "SECURE-ZERO", "zeroes-whole-range", where(f, m),
                "memset(pBuf, 0, bufsize)", "the memset does not zero the whole range: %s" % f.show(m.node))
        good = []
        for a in asms:
            n = a.node
            ins = [f.show(x) for x in n.get("inputs", [])]
            if n.get("volatile") and "memory" in n.get("clobbers", []) and any("pBuf" in i for i in ins) and ev_dominates(f, m, a):
                good.append(a)
        R.check(bool(good), "SECURE-ZERO", "barrier-after-memset", where(f, m), "volatile asm with pBuf as input and a memory clobber follows the memset (the store cannot be elided)",
                "no volatile asm barrier (input pBuf, clobber \"memory\") follows the memset: the compiler may remove the zeroing as a dead store")


MUTANTS = [
    {"name": "init-from-file-cleans-up-what-it-never-wrote", "file": "source/file.c", "expect": "INIT-FIRST", "old": "    AWS_ZERO_STRUCT(*out_buf);\n    FILE *fp = aws_fopen(filename, \"rb\");", "new": "    FILE *fp = aws_fopen(filename, \"rb\");"},
    {"name": "reserve-smart-takes-the-32-bit-maximum", "file": "source/byte_buf.c", "expect": "NARROW", "old": "size_t new_capacity = aws_max_size(requested_capacity, double_current_capacity);", "new": "size_t new_capacity = aws_max_u32(requested_capacity, double_current_capacity);"},
    {"name": "overflow-verdict-parked-in-a-variable", "file": BB, "expect": "NOWRAP",
     "old": "        if (aws_mul_u64_checked(val, base, &val)) {\n            return aws_raise_error(AWS_ERROR_OVERFLOW_DETECTED);\n        }\n\n        if (aws_add_u64_checked(val, cval, &val)) {\n            return aws_raise_error(AWS_ERROR_OVERFLOW_DETECTED);\n        }\n    }",
     "new": "        overflow_seen = aws_mul_u64_checked(val, base, &val) || aws_add_u64_checked(val, cval, &val);\n    }\n    if (overflow_seen) {\n        return aws_raise_error(AWS_ERROR_OVERFLOW_DETECTED);\n    }",
     "old2": "    const uint8_t *hex_to_num_table = aws_lookup_table_hex_to_num_get();\n", "new2": "    const uint8_t *hex_to_num_table = aws_lookup_table_hex_to_num_get();\n    bool overflow_seen = false;\n"},
    {"name": "c-str-terminator-read-first", "file": BB, "expect": "BOUND",
     "old": "    const uint8_t *str_bytes = (const uint8_t *)c_str;\n\n    for (size_t i = 0; i < array_len; ++i) {\n        uint8_t s = str_bytes[i];\n        if (s == '\\0') {\n            return false;\n        }\n\n        if (array_bytes[i] != s) {",
     "new": "    const uint8_t *str_bytes = (const uint8_t *)c_str;\n\n    if (str_bytes[array_len] != '\\0') {\n        return false;\n    }\n    for (size_t i = 0; i < array_len; ++i) {\n        uint8_t s = str_bytes[i];\n        if (s == '\\0') {\n            return false;\n        }\n\n        if (array_bytes[i] != s) {"},
    {"name": "copy-allocates-len-keeps-capacity", "file": BB, "expect": "VIEW",
     "old": "    dest->buffer = (uint8_t *)aws_mem_acquire(allocator, src->capacity);", "new": "    dest->buffer = (uint8_t *)aws_mem_acquire(allocator, src->len > 0 ? src->len : src->capacity);"},
    {"name": "right-trim-counts-from-capacity", "file": BB, "expect": "VIEW",
     "old": "    struct aws_byte_cursor dest = aws_byte_cursor_right_trim_pred(&left_trimmed, predicate);", "new": "    struct aws_byte_cursor dest = aws_byte_cursor_right_trim_pred(&left_trimmed, predicate);\n    dest.len -= source->len - left_trimmed.len;"},
    {"name": "write-overwrites-last-byte", "file": BB, "expect": "KEEP",
     "old": "    memcpy(buf->buffer + buf->len, src, len);\n    buf->len += len;", "new": "    memcpy(buf->buffer, src, len);\n    buf->len += len;"},
    {"name": "append-guard-off-by-one", "file": BB, "expect": "BOUND",
     "old": "int aws_byte_buf_append(struct aws_byte_buf *to, const struct aws_byte_cursor *from) {\n    AWS_PRECONDITION(aws_byte_buf_is_valid(to));\n    AWS_PRECONDITION(aws_byte_cursor_is_valid(from));\n\n    if (to->capacity - to->len < from->len) {",
     "new": "int aws_byte_buf_append(struct aws_byte_buf *to, const struct aws_byte_cursor *from) {\n    AWS_PRECONDITION(aws_byte_buf_is_valid(to));\n    AWS_PRECONDITION(aws_byte_cursor_is_valid(from));\n\n    if (to->capacity - to->len + 1 < from->len) {"},
    {"name": "write-drops-half-max-clause", "file": BB, "expect": "BOUND",
     "old": "    if (buf->len > (SIZE_MAX >> 1) || len > (SIZE_MAX >> 1) || buf->len + len > buf->capacity) {", "new": "    if (buf->len > (SIZE_MAX >> 1) || buf->len + len > buf->capacity) {"},
    {"name": "u8n-guard-on-capacity", "file": BB, "expect": "BOUND",
     "old": "count > (SIZE_MAX >> 1) || buf->len + count > buf->capacity", "new": "buf->capacity > (SIZE_MAX >> 1) || buf->len + count > buf->capacity"},
    {"name": "lookup-len-before-guard", "file": BB, "expect": "ATOMIC-FAIL",
     "old": "    if (to->capacity - to->len < from->len) {\n        AWS_POSTCONDITION(aws_byte_buf_is_valid(to));\n        AWS_POSTCONDITION(aws_byte_cursor_is_valid(from));\n        return aws_raise_error(AWS_ERROR_DEST_COPY_TOO_SMALL);\n    }\n\n    for (size_t i = 0;",
     "new": "    to->len += 0;\n    to->len = to->len + 1;\n    if (to->capacity - to->len < from->len) {\n        return aws_raise_error(AWS_ERROR_DEST_COPY_TOO_SMALL);\n    }\n\n    for (size_t i = 0;"},
    {"name": "scrub-before-second-copy", "file": BB, "expect": "GROW-ORDER",
     "old": "        if (from->len > 0) {\n            memcpy(new_buffer + to->len, from->ptr, from->len);\n        }\n\n        if (clear_released_memory) {\n            aws_secure_zero(to->buffer, to->capacity);\n        }\n",
     "new": "        if (clear_released_memory) {\n            aws_secure_zero(to->buffer, to->capacity);\n        }\n        if (from->len > 0) {\n            memcpy(new_buffer + to->len, from->ptr, from->len);\n        }\n\n"},
    {"name": "secure-variant-passes-false", "file": BB, "expect": "GROW-ORDER",
     "old": "    return s_aws_byte_buf_append_dynamic(to, from, true);", "new": "    return s_aws_byte_buf_append_dynamic(to, from, false);"},
    {"name": "nospec-advance-unguarded", "file": BB, "expect": "NOWRAP",
     "old": "    if (len <= cursor->len && len <= (SIZE_MAX >> 1) && cursor->len <= (SIZE_MAX >> 1)) {", "new": "    if (len <= (SIZE_MAX >> 1)) {"},
    {"name": "secure-zero-no-clobber", "file": "source/common.c", "expect": "SECURE-ZERO", "old": ": \"memory\"", "new": ": \"cc\""},
    {"name": "advance-len-plus-one", "file": BB, "expect": "BOUND",
     "old": "        rv.ptr = cursor->ptr;\n        rv.len = len;\n        cursor->ptr = (cursor->ptr == NULL) ? NULL : cursor->ptr + len;\n        cursor->len -= len;",
     "new": "        rv.ptr = cursor->ptr;\n        rv.len = len;\n        cursor->ptr = (cursor->ptr == NULL) ? NULL : cursor->ptr + len;\n        cursor->len -= len;\n        if (rv.len) { (void)rv.ptr[rv.len]; }"},
]
