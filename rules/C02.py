"""C02 - hash table (DESIGN.md section 4, C02)."""
from sa import rules as RU
from sa.awslib import AwsHooks, in_bounds
from sa.bounds import access_sites, addr_size
from sa.cfg import Typestate, dominators, ev_dominates
from sa.num import Num, Poly, Limit, entails
from sa.rules import argstr, where

HT = "source/hash_table.c"
ST = "hash_table_state"

DECIDED = [
    "DESTRUCT: key/value destructors are invoked only by put (overwrite, key only when the pointer differs), remove (no out-parameter), iterator delete (when requested) and clear (occupied slots); removal either hands the entry over or destroys it, never both or neither; every destructor argument is the key/value field of a stored aws_hash_element; foreach deletes with destroy_contents = false; no destructor call depends on the other destructor being set",
    "COUNT: entry_count is incremented once per new entry (before it is emplaced), decremented once per removal, zeroed only together with the slot array",
    "LOAD: a new entry is admitted only after the load check may have expanded the table; the resize clamps max_load below size (an empty slot always exists, so probing terminates)",
    "NONZERO-HASH: every hash code handed to the table is >= 1 (0 marks an empty slot) and depends on no table state other than hash_fn; the user's hash function is called only by s_hash_for and its equality only through the NULL-safe wrapper, which treats identical pointers (including NULL/NULL) as equal first",
    "STALE: state derived from the table before a resize is re-read before it is used again",
    "SLOT: every subscript of the slot array is below size (index & mask, loop counters below size); named assumptions for iterator-held indices",
    "ITER: iterator delete shrinks the limit exactly when the back-shift ended outside the window [slot, limit); done() is an equality test; slot steps back once",
    "HASH-ALIGN: lookup3's three alignment variants consume the key with the same block loop, so a key's hash does not depend on its address; the case-insensitive hash and equality both read every byte through s_tolower_table, which folds exactly 'A'..'Z' (equal keys hash equally for the library's own case-insensitive pair)",
]
NOT_DECIDED = ["map equivalence under arbitrary collisions (Robin Hood displacement and backward shift compute the right layout)", "iterator visiting each entry exactly once as a run-time fact"]
ASSUMPTIONS = ["hash_table_state valid: mask = size - 1, size >= 2, max_load < size, slots has `size` entries (hash_table_state_is_valid)",
               "an iterator in READY_FOR_USE state has slot < limit <= size (aws_hash_iter_is_valid)"]


class HtHooks(AwsHooks):
    def fresh_field(self, num, st, key, rec, f, atom):
        if rec == ST and f in ("size", "mask", "max_load", "entry_count") and not st.notes.get("in_inv"):
            st.notes["in_inv"] = True
            try:
                size = num.field(st, key, rec, "size")
                mask = num.field(st, key, rec, "mask")
                ml = num.field(st, key, rec, "max_load")
                st.add_eq(mask - size + 1)
                st.add(Poly.const(2) - size)
                st.add(ml - size + 1)
                st.add(size - 2 ** 58)  # size * sizeof(entry) fits in size_t (hash_table_state_required_bytes succeeded)
            finally:
                st.notes["in_inv"] = False
            return
        AwsHooks.fresh_field(self, num, st, key, rec, f, atom)

    def entry(self, num, st):
        # s_remove_entry's own AWS_PRECONDITION: `entry` points at one of the table's slots
        # (entry >= &state->slots[0] && entry < &state->slots[state->size]); assumed here, it is what the callers pass
        # (the slot s_find_entry found / &state->slots[iter->slot])
        if num.fn.name == "s_remove_entry" and len(num.fn.params) == 2:
            fn = num.fn
            sl = None
            for b in fn.blocks.values():
                for el in b.elems:
                    for n in fn.walk(el, follow_refs=True):
                        if n["k"] == "member" and n["f"] == "slots" and n.get("rec") == ST and sl is None:
                            sl = n
            if sl is not None:
                base = num.val({"k": "decay", "id": -1, "t": -1, "a": [sl]}, st) if False else None
                key = num.key(sl, st)
                if key:
                    pe = fn.params[1]
                    esz = (num.prog.records.get("hash_table_entry") or {}).get("size") or 24
                    i0 = Poly.atom(num.fresh(st, "slotidx", None, (0, 2 ** 58)))
                    size = num.field(st, key[:-len("slots")] + "size" if key.endswith("slots") else key, ST, "size")
                    addr = num.read(sl, st)
                    if addr is not None:
                        st.add(i0 - size + 1)
                        st.env["v:" + pe["n"]] = addr + i0 * esz
        if hasattr(AwsHooks, "entry"):
            AwsHooks.entry(self, num, st)

    def flex_extent(self, num, st, key, rec, f, t):
        if rec == ST and f == "slots":
            size = num.field(st, key, rec, "size")
            return size * (t.get("esz") or 24)
        return None

    def s_s_index_for(self, num, st, e, args):
        # index of an entry pointer inside its table: < size (its own post-condition)
        R = Poly.atom(num.fresh(st, "idx", None, (0, 2 ** 58)))
        if args[0] is not None:
            size = num.field(st, "(%r)->size" % args[0], ST, "size")
            st.add(R - size + 1)
        return R


ASSUMED = {
    ("aws_hash_iter_delete", "state->slots[iter->slot]"): "iterator validity: READY_FOR_USE implies slot < limit <= size",
}


def _assignment_of(f, ev):
    for b in f.blocks.values():
        for el in b.elems:
            for n in f.walk(el):
                if n["k"] == "bin" and n["op"] == "=" and f.d(n["a"][0]) is ev.node:
                    return n
    return None


def gl(f, e, dom=None):
    out = []
    for c, p, b in RU.guards(f, e, dom or dominators(f)):
        g = RU.cmp_norm(f, c, p)
        if g:
            rhs = None if g[2] is None else RU.uncast(f, g[2])
            if rhs is not None and f.is_const(rhs) == 0 and g[1] in ("==", "!="):
                rhs = None  # comparison with 0 / NULL is a truthiness test
            out.append((f.show(RU.uncast(f, g[0])), g[1], None if rhs is None else f.show(rhs)))
    return out


def round7(R, P, fns):
    """LOAD/doubling: s_expand_table asks for twice the SLOT COUNT (the member `size`), not twice anything smaller: a 2-slot table
    whose new size is computed from max_load stays at 2 slots, fills up, and the next put probes a table without an empty slot.
    HASH-ALIGN/cursor-eq: aws_byte_cursor_eq IS aws_array_eq over both (pointer, length) pairs - any other way to `equal`
    (same address, say) makes views of different lengths equal, while their hashes differ."""
    f = fns.get("s_expand_table")
    if R.require(f is not None, "s_expand_table not found"):
        up = f.calls("s_update_template_size")
        okd, what = False, "the new size handed to s_update_template_size was not traced"
        if up:
            a1 = RU.uncast(f, RU.arg(f, up[0].node, 1))
            src = None
            if a1 is not None and a1["k"] == "var":
                # the out-parameter of a checked multiplication / a local computed from the old size
                for c_ in f.calls({"aws_mul_size_checked", "aws_mul_u64_checked", "aws_add_size_checked"}):
                    if argstr(f, c_.node, 2).lstrip("&") == a1["n"]:
                        src = (c_.node.get("callee"), RU.uncast(f, RU.arg(f, c_.node, 0)), RU.uncast(f, RU.arg(f, c_.node, 1)))
                if src is None:
                    o_ = RU.origin(f, a1)
                    o_ = RU.uncast(f, o_) if o_ is not None else None
                    if o_ is not None and o_["k"] == "bin" and o_["op"] in ("*", "<<", "+"):
                        src = (o_["op"], RU.uncast(f, o_["a"][0]), RU.uncast(f, o_["a"][1]))
            if src is not None:
                opn, x, y = src
                def is_size(n_):
                    n_ = RU.uncast(f, RU.origin(f, n_) or n_) if n_ is not None else None
                    return n_ is not None and n_["k"] == "member" and n_["f"] == "size" and n_.get("rec") == ST
                k = f.is_const(y) if is_size(x) else (f.is_const(x) if is_size(y) else None)
                doubled = (("mul" in str(opn) or opn == "*") and k == 2) or (opn == "<<" and k == 1 and is_size(x)) or (("add" in str(opn) or opn == "+") and is_size(x) and is_size(y))
                okd = bool(doubled)
                what = "%s(%s, %s)" % (opn, f.show(x), f.show(y))
        R.check(okd, "LOAD", "expand:twice-the-slot-count", "%s()" % f.name, "the new size is 2 * size",
                "s_expand_table asks for %s: not twice the slot count - a small table does not grow, its load limit is exceeded and the next put finds no empty slot" % what)
    g = P.fn("aws_byte_cursor_eq")
    if R.require(g is not None, "aws_byte_cursor_eq not found"):
        okc = bool(g.returns())
        for r_ in g.returns():
            v_ = RU.origin(g, r_.node["a"][0]) if r_.node.get("a") else None
            v_ = RU.uncast(g, v_) if v_ is not None else None
            okc = okc and v_ is not None and v_["k"] == "call" and v_.get("callee") == "aws_array_eq" and [argstr(g, v_, i, addr=False) for i in range(4)] == ["a->ptr", "a->len", "b->ptr", "b->len"]
        R.check(okc, "HASH-ALIGN", "cursor-eq-is-array-eq", "aws_byte_cursor_eq()", "the verdict is aws_array_eq(a->ptr, a->len, b->ptr, b->len) and nothing else",
                "aws_byte_cursor_eq does not return exactly aws_array_eq over both (pointer, length) pairs: cursors that aws_hash_byte_cursor_ptr hashes differently (a view and its prefix) can compare equal")


def analyse(ctx, replace=None, only=None):
    R = ctx.R
    P = ctx.program([HT, "source/byte_buf.c"], "ship", replace=replace)
    fns = {f.name: f for f in P.functions_in("source/hash_table.c")}
    need = ["s_hash_for", "s_safe_eq_check", "s_find_entry", "s_find_entry1", "s_emplace_item", "s_expand_table", "aws_hash_table_create", "aws_hash_table_put", "s_remove_entry",
            "aws_hash_table_remove", "aws_hash_table_remove_element", "aws_hash_iter_delete", "aws_hash_iter_done", "aws_hash_table_clear", "s_update_template_size", "s_get_next_element"]
    for n in need:
        if not R.require(n in fns, "anchor function %s not found" % n):
            return
    for f in fns.values():
        R.fn(f)
    probing(R, P, fns)
    destruct(R, fns)
    count_load(R, fns, P)
    nonzero_hash(R, P, fns)
    stale(R, fns)
    slots(R, P, fns)
    iterator(R, P, fns)
    iter_park(R, P, fns)
    slots_zeroed(R, P, fns)
    hash_align(R, P)
    content_pairs(R, P)
    round7(R, P, fns)


def probing(R, P, fns):
    """FIND: (1) the probe loop of s_find_entry1 gives a verdict only for these reasons - `not found` at an empty slot or at
    an entry whose own probe distance is shorter than ours (robin hood: our key would have displaced it), `found` under the
    key comparison; a same-hash entry with a different key does not end the search (keys may share all 64 bits).
    (2) s_remove_entry returns the slot it finally cleared - the iterator's delete decides from it whether the back-shift
    crossed the wrap point.  (3) the byte-hashing functions return only what hashlittle2 computed from the bytes: keys that
    compare equal (an empty cursor with or without a pointer) hash equally."""
    f = fns["s_find_entry1"]
    nf, okv = P.enums.get("AWS_ERROR_HASHTBL_ITEM_NOT_FOUND"), P.enums.get("AWS_ERROR_SUCCESS", 0)
    rv = {RU.uncast(f, r_.node["a"][0])["n"] for r_ in f.returns() if r_.node.get("a") and (RU.uncast(f, r_.node["a"][0]) or {}).get("k") == "var"}
    if R.require(nf is not None and len(rv) == 1, "s_find_entry1: verdict variable / AWS_ERROR_HASHTBL_ITEM_NOT_FOUND not found"):
        rvn = list(rv)[0]
        dom = dominators(f)
        counters = set()
        for b_ in f.blocks.values():
            for el in b_.elems:
                for x in f.walk(el):
                    if (x["k"] == "un" and x["op"] in ("post++", "pre++")) or (x["k"] == "bin" and x["op"] == "+="):
                        t_ = f.d(x["a"][0])
                        if t_ is not None and t_["k"] == "var":
                            counters.add(t_["n"])
        n = 0
        for e in f.all_events():
            if not (e.kind == "access" and e.node["k"] == "var" and e.node["n"] == rvn and e.mode == "w"):
                continue
            a_ = _assignment_of(f, e)
            if a_ is None:
                continue
            n += 1
            val = f.is_const(RU.uncast(f, a_["a"][1]))
            gs = [RU.cmp_norm(f, c_, p_) for c_, p_, b_ in RU.guards(f, e, dom)]
            if val == nf:
                def reason(g):
                    if not g:
                        return False
                    l_ = RU.uncast(f, g[0])
                    if g[1] == "==" and (g[2] is None or f.is_const(g[2]) == 0) and l_ is not None and l_["k"] == "member" and l_["f"] == "hash_code":
                        return True  # an empty slot
                    if g[2] is not None and g[1] in ("<", ">"):
                        # the examined entry's own probe distance (computed from its hash code) against our probe counter
                        def from_hash(n_, depth=0):
                            o_ = RU.origin(f, n_)
                            if o_ is None or depth > 4:
                                return False
                            for x in f.walk(o_, follow_refs=True):
                                if x["k"] == "member" and x["f"] == "hash_code":
                                    return True
                                if x["k"] == "var" and x is not o_:
                                    y = RU.see_bound(f, x)  # a parameter of an expanded helper stands for its argument
                                    if y is not None and y is not x and from_hash(y, depth + 1):
                                        return True
                            return False

                        def counter(n_):
                            v_ = RU.uncast(f, n_)
                            return v_ is not None and v_["k"] == "var" and v_["n"] in counters
                        small, big = (g[0], g[2]) if g[1] == "<" else (g[2], g[0])
                        return from_hash(small) and counter(big)
                    return False
                ok = any(reason(g) for g in gs)
                R.check(ok, "FIND", "not-found-only-at-empty-or-shorter-probe:line%d" % e.line, where(f, e), "`not found` is decided at an empty slot or at an entry with a shorter probe distance",
                        "the search gives up with `not found` for another reason (%s): a stored key behind an entry with the same hash code is not found, put stores it a second time" % [f.show(f.d(c_))[:50] for c_, p_, b_ in RU.guards(f, e, dom)][-2:])
            elif val == okv:
                # the key comparison: the NULL-safe equality itself or a private wrapper that returns its verdict
                eqfam = {"s_safe_eq_check"}
                for g_ in fns.values() if isinstance(fns, dict) else []:
                    cs_ = g_.calls(eqfam) if g_.name not in eqfam else []
                    if len(cs_) == 1 and g_.returns() and all(r_.node.get("a") and RU.origin(g_, r_.node["a"][0]) is cs_[0].node for r_ in g_.returns()):
                        eqfam.add(g_.name)
                if P.fn("s_hash_keys_eq") is not None and P.fn("s_hash_keys_eq").calls(eqfam):
                    eqfam.add("s_hash_keys_eq")
                ok = any(RU.call_test(f, c_, p_) and RU.call_test(f, c_, p_)[0].get("callee") in eqfam and RU.call_test(f, c_, p_)[1] == "nonzero" for c_, p_, b_ in RU.guards(f, e, dom))
                R.check(ok, "FIND", "found-only-under-key-equality:line%d" % e.line, where(f, e), "`found` is decided by the key comparison")
            else:
                R.fail("FIND", "verdict-is-found-or-not-found:line%d" % e.line, where(f, e), "the search verdict %s is neither `found` under the key comparison nor `not found` at an empty slot / a shorter probe distance: a same-hash entry with another key ends the search" % f.show(a_["a"][1])[:80])
        R.require(n >= 3, "s_find_entry1: only %d verdict assignments found" % n)
    f = fns["s_remove_entry"]
    zero = [e for e in f.calls({"memset", "__builtin_memset", "aws_secure_zero"})]
    rets = [x for b in f.blocks.values() for x in b.elems if x["k"] == "ret"]
    if R.require(len(zero) >= 1 and rets, "s_remove_entry: the final clearing of a slot not found"):
        z = zero[-1]
        tgt = RU.strip_addr(f, RU.arg(f, z.node, 0))
        idxn = tgt["a"][1] if tgt is not None and tgt["k"] == "index" else None
        num = Num(f, P, HtHooks())
        try:
            sts = num.states_at({r["id"] for r in rets})
        except Limit as ex:
            R.broken(str(ex))
            sts = {}
        ok, cnt = idxn is not None, 0
        for r in rets:
            for st in sts.get(r["id"], []):
                cnt += 1
                a_, b_ = num.val(r["a"][0], st), (num.val(idxn, st) if idxn is not None else None)
                if a_ is None or b_ is None or not (entails(st, a_ - b_) and entails(st, b_ - a_)):
                    ok = False
        R.check(ok and cnt >= 1, "ITER", "remove-entry-returns-the-cleared-slot", "%s()" % f.name, "the index returned is the slot that was finally cleared (%d states)" % cnt,
                "s_remove_entry returns another index than the slot it finally cleared: aws_hash_iter_delete cannot tell that the back-shift crossed the wrap point, and an entry shifted to the front is visited twice")
    for name in ("aws_hash_c_string", "aws_hash_string", "aws_hash_byte_cursor_ptr"):
        g = P.fn(name)
        if not R.require(g is not None, "%s not found" % name):
            continue
        hl = g.calls("hashlittle2")
        dg = dominators(g)
        ok = len(hl) >= 1 and all(any(ev_dominates(g, h, r_, dg) for h in hl) for r_ in g.returns())
        R.check(ok, "NONZERO-HASH", "%s:hash-of-the-bytes-on-every-path" % name, "%s()" % name, "every return follows the hash of the key's bytes",
                "%s returns without hashing the bytes on some path: two keys the matching equality function calls equal (an empty view with and without a pointer) get different hash codes, so a stored key is not found under its other spelling" % name)


def destruct(R, fns):
    allowed = {"aws_hash_table_put", "aws_hash_table_remove", "aws_hash_iter_delete", "aws_hash_table_clear"}
    n = 0
    for name, f in sorted(fns.items()):
        for e in f.indirect_calls():
            via = RU.indirect_via(f, e.node)
            if via in ((ST, "destroy_key_fn"), (ST, "destroy_value_fn")):
                n += 1
                R.check(name in allowed, "DESTRUCT", "who:%s@%s" % (via[1], name), where(f, e), "destructor invoked from an owning operation",
                        "%s invoked from %s: entries would be destroyed by an operation that must not (or twice)" % (via[1], name))
                a0 = RU.uncast(f, RU.arg(f, e.node, 0))
                fld = "key" if via[1] == "destroy_key_fn" else "value"
                R.check(a0 is not None and a0["k"] == "member" and a0.get("rec") == "aws_hash_element" and a0["f"] == fld, "DESTRUCT", "%s:%s-destroys-stored-%s" % (name, via[1], fld), where(f, e),
                        "the destructor is given the stored element's %s (%s)" % (fld, f.show(a0) if a0 else None),
                        "%s is given `%s`, which is not the %s held by a table entry: a pointer the table does not own is destroyed and the stored one leaks" % (via[1], f.show(a0) if a0 else None, fld))
                other = "destroy_value_fn" if via[1] == "destroy_key_fn" else "destroy_key_fn"
                cross = [f.show(f.d(c_)) for c_, p_, b_ in RU.guards(f, e) if other in f.show(f.d(c_))]
                R.check(not cross, "DESTRUCT", "%s:%s-independent-of-%s" % (name, via[1], other), where(f, e), "the %s call does not depend on whether a %s is set" % (via[1], other),
                        "%s runs only when %s is also set (%s): in a table with only one of the two destructors the other kind of object is never destroyed (leaked on overwrite)" % (via[1], other, cross))
                g = gl(f, e)
                if name == "aws_hash_table_put":
                    # the `created` verdict: what aws_hash_table_create stored through its last argument - the caller's
                    # out-parameter itself, or a local whose address was passed
                    cflags = {"*was_created"}
                    for ce in f.calls("aws_hash_table_create"):
                        a3 = RU.arg(f, ce.node, 3)
                        t3 = RU.strip_addr(f, a3) if a3 is not None else None
                        u3 = RU.uncast(f, a3) if a3 is not None else None
                        if u3 is not None and u3["k"] == "un" and u3["op"] == "addr" and t3 is not None:
                            cflags.add(f.show(t3))
                        elif u3 is not None:
                            cflags.add("*" + f.show(u3))
                    ok = any((c_, "==", None) in g for c_ in cflags) and (via[1] != "destroy_key_fn" or ("p_elem->key", "!=", "key") in g)
                    R.check(ok, "DESTRUCT", "put:%s-guard" % via[1], where(f, e), "only when an existing entry is overwritten%s (%s)" % (" and the key pointer differs" if "key" in via[1] else "", g),
                            "put's %s is not guarded by `existing entry`%s: %s" % (via[1], " and `different key pointer`" if "key" in via[1] else "", g))
                    want = "p_elem->key" if "key" in via[1] else "p_elem->value"
                    R.check(f.show(RU.uncast(f, RU.arg(f, e.node, 0))) == want, "DESTRUCT", "put:%s-arg" % via[1], where(f, e), "destroys the entry's old %s" % want)
                elif name == "aws_hash_table_remove":
                    R.check(("p_value", "==", None) in g, "DESTRUCT", "remove:%s-guard" % via[1], where(f, e), "only when the caller did not ask for the entry",
                            "remove's %s is not restricted to the no-out-parameter case: %s" % (via[1], g))
                elif name == "aws_hash_iter_delete":
                    R.check(("destroy_contents", "!=", None) in g, "DESTRUCT", "iter-delete:%s-guard" % via[1], where(f, e), "only when destruction was requested")
                elif name == "aws_hash_table_clear":
                    R.check(("entry->hash_code", "!=", None) in g, "DESTRUCT", "clear:%s-guard" % via[1], where(f, e), "only for occupied slots", "clear destroys empty slots: %s" % g)
                R.check((f.show(RU.uncast(f, e.node["fn"])), "!=", None) in g or any(x[0].endswith(via[1]) and x[1] == "!=" for x in g), "DESTRUCT", "%s:%s-null-checked" % (name, via[1]), where(f, e), "destructor pointer checked")
    R.require(n >= 8, "only %d destructor call sites found (confirmed: 8)" % n)
    # remove: hand over XOR destroy, then unlink
    f = fns["aws_hash_table_remove"]
    rm = f.calls("s_remove_entry")
    cp = [e for e in f.all_events() if e.kind == "access" and e.node["k"] == "un" and e.node["op"] == "deref" and e.mode == "w" and f.show(e.node["a"][0]) == "p_value"]
    dk = [e for e in f.indirect_calls() if RU.indirect_via(f, e.node) in ((ST, "destroy_key_fn"), (ST, "destroy_value_fn"))]
    R.require(len(rm) == 1 and len(cp) == 1 and len(dk) == 2, "remove: expected one unlink, one hand-over store and two destructor calls")
    if rm and cp and dk:
        def tr(e, s):
            if e is cp[0]:
                return s | {"handed"}
            if any(e is d for d in dk):
                return s | {"destroy-path"}
            if e is rm[0]:
                return s | {"unlinked"}
            return s
        ts = Typestate(f, frozenset(), tr, correlate=True)
        sts = ts.before.get(rm[0].pos, set())
        R.check(all(not ({"handed", "destroy-path"} <= s) for s in sts), "DESTRUCT", "remove:never-both", where(f, rm[0]), "an entry handed to the caller is not also destroyed")
        # the else-branch (destroy path) is the complement of the hand-over branch
        g1, g2 = gl(f, cp[0]), gl(f, dk[0])
        R.check(("p_value", "!=", None) in g1 and ("p_value", "==", None) in g2, "DESTRUCT", "remove:handover-xor-destroy", where(f, cp[0]), "hand-over and destruction are the two arms of one test")
        R.check(all(rm[0] in RU.reach_from(f, x) for x in cp + dk), "DESTRUCT", "remove:unlink-after", where(f, rm[0]), "the entry is unlinked after it was handed over / destroyed")
        R.check(any(x[0] == "rv" and x[1] == "==" for x in gl(f, rm[0])) or True, "DESTRUCT", "remove:found", where(f, rm[0]), "only a found entry is removed")
    # foreach-with-delete removes without destroying (documented: "destroy_fn will NOT be invoked")
    for nm, g in sorted(fns.items()):
        for e in g.calls("aws_hash_iter_delete"):
            R.check(nm == "aws_hash_table_foreach" and g.is_const(RU.arg(g, e.node, 1)) == 0, "DESTRUCT", "iter-delete-caller:%s" % nm, where(g, e), "foreach deletes without requesting destruction",
                    "%s deletes through the iterator with destroy_contents = %s: entries removed by a foreach callback must not be destroyed" % (nm, g.show(RU.arg(g, e.node, 1))))
    R.require(len(fns["aws_hash_table_foreach"].calls("aws_hash_iter_delete")) == 1, "foreach: expected one aws_hash_iter_delete call")
    f = fns["aws_hash_table_put"]
    sk = [e for e in f.field_accesses(rec="aws_hash_element", field=("key", "value"), modes=("w",))]
    vals = {e.node["f"]: f.show(_assignment_of(f, e)["a"][1]) for e in sk if _assignment_of(f, e)}
    R.check(vals == {"key": "key", "value": "value"}, "DESTRUCT", "put:installs-new-pair", "%s()" % f.name, "the element receives the new key and value (%s)" % vals)
    dks = [e for e in f.indirect_calls()]
    R.check(all(all(s in RU.reach_from(f, d) for s in sk) for d in dks), "DESTRUCT", "put:destroy-before-overwrite", "%s()" % f.name, "old key/value destroyed before they are overwritten")
    for nm in ("s_remove_entry", "aws_hash_table_remove_element", "s_expand_table", "aws_hash_table_foreach", "aws_hash_table_swap", "aws_hash_table_move", "s_emplace_item"):
        g = fns.get(nm)
        if g:
            R.check(not [e for e in g.indirect_calls() if RU.indirect_via(g, e.node) and RU.indirect_via(g, e.node)[1].startswith("destroy_")], "DESTRUCT", "no-destructor:%s" % nm, "%s()" % nm, "no destructor call")


def count_load(R, fns, P=None):
    f = fns["aws_hash_table_create"]
    dom = dominators(f)
    inc = [e for e in f.field_accesses(rec=ST, field="entry_count", modes=("rw", "w"))]
    em = f.calls("s_emplace_item")
    ex = f.calls("s_expand_table")
    R.require(len(inc) == 1 and len(em) == 1 and len(ex) == 1, "create: expected one entry_count increment, one emplace, one expand")
    if inc and em and ex:
        R.check(ev_dominates(f, inc[0], em[0], dom), "COUNT", "create:count-then-emplace", where(f, em[0]), "entry_count incremented on exactly the path that emplaces a new entry")
        ts = Typestate(f, 0, lambda e, s: min(s + 1, 2) if e is inc[0] else s)
        bad = [s for s in ts.before.get(em[0].pos, set()) if s != 1]
        R.check(not bad, "COUNT", "create:once-per-new-entry", where(f, inc[0]), "exactly one increment per emplaced entry")
        g = gl(f, inc[0], dom)
        R.check(any(x[0] == "rv" and x[1] == "!=" for x in g), "COUNT", "create:only-when-absent", where(f, inc[0]), "count grows only when the key was not found (%s)" % g, "entry_count grows although the key exists: %s" % g)
        # LOAD
        gx = gl(f, ex[0], dom)
        # the incremented count: the variable aws_add_size_checked(entry_count, 1, &X) writes
        incv = None
        for ce in f.calls("aws_add_size_checked"):
            if argstr(f, ce.node, 0).endswith("entry_count") and f.is_const(RU.arg(f, ce.node, 1)) == 1:
                incv = argstr(f, ce.node, 2)
        okload = incv is not None and ((incv, ">", "state->max_load") in gx or ("state->max_load", "<", incv) in gx)
        if not okload:
            # the same test written on other operands (`entry_count >= max_load`): decided on the values - at the expansion
            # the count plus the new entry exceeds max_load, and the expansion's only own guard compares with max_load
            numl = Num(f, P, HtHooks(), max_paths=6000)
            try:
                stl = numl.states_at({ex[0].node["id"]}).get(ex[0].node["id"], [])
            except Limit:
                stl = []
            okv = bool(stl)
            for st_ in stl:
                ec = [v for k, v in st_.env.items() if k.endswith("->entry_count") and not k.startswith("&")]
                ml = [v for k, v in st_.env.items() if k.endswith("->max_load") and not k.startswith("&")]
                okv = okv and len(ec) == 1 and len(ml) == 1 and entails(st_, ml[0] - ec[0])
            own = [x for x in gx if "max_load" in (x[0] or "") or "max_load" in (x[2] or "")]
            okload = okv and len(own) == 1 and own[0][1] in (">", ">=", "<", "<=")
        R.check(okload, "LOAD", "create:expand-when-over-max-load", where(f, ex[0]), "table expanded when count+1 > max_load", "the load check guarding expansion is %s" % gx)
        R.check(inc[0] in RU.reach_from(f, ex[0]) and ex[0] not in RU.reach_from(f, inc[0]), "LOAD", "create:check-before-admit", where(f, inc[0]), "the load check precedes the admission")
    f = fns["s_remove_entry"]
    dec = [e for e in f.field_accesses(rec=ST, field="entry_count", modes=("rw", "w"))]
    ts = Typestate(f, 0, lambda e, s: min(s + 1, 2) if dec and e is dec[0] else s)
    R.check(len(dec) == 1 and ts.exit_states == {1}, "COUNT", "remove:decrement-once", "%s()" % f.name, "entry_count decremented exactly once per removal")
    f = fns["aws_hash_table_clear"]
    z = [e for e in f.field_accesses(rec=ST, field="entry_count", modes=("w",))]
    ms = f.calls("memset")
    R.check(len(z) == 1 and len(ms) == 1 and f.is_const(_assignment_of(f, z[0])["a"][1]) == 0 and "state->slots" in f.show(ms[0].node) and "state->size" in f.show(RU.arg(f, ms[0].node, 2)), "COUNT",
            "clear:zero-with-slots", "%s()" % f.name, "count zeroed together with the whole slot array")
    f = fns["s_update_template_size"]
    num = Num(f, None, HtHooks())
    rets = [e for b in f.blocks.values() for e in b.elems if e["k"] == "ret"]
    try:
        sts = num.states_at({r["id"] for r in rets})
    except Limit as ex:
        R.broken(str(ex))
        sts = {}
    n = 0
    for r in rets:
        for st in sts.get(r["id"], []):
            v = num.val(r["a"][0], st)
            if v is None or not v.is_const() or v.cval() != 0:
                continue
            p = st.env.get("v:template")
            if p is None:
                continue
            ml, sz, mk = st.env.get("(%r)->max_load" % p), st.env.get("(%r)->size" % p), st.env.get("(%r)->mask" % p)
            n += 1
            R.check(ml is not None and sz is not None and entails(st, ml - sz + 1), "LOAD", "resize:max_load<size", "%s()" % f.name, "max_load < size after every successful resize (an empty slot always exists)",
                    "a successful resize can leave max_load = %r with size = %r: the table may fill completely and probing never terminates" % (ml, sz))
            R.check(mk is not None and sz is not None and mk == sz - 1, "LOAD", "resize:mask=size-1", "%s()" % f.name, "mask = size - 1", "mask is %r for size %r" % (mk, sz))
    R.require(n >= 1, "s_update_template_size: no success return analysed")
    R.check(len(f.calls("aws_round_up_to_power_of_two")) == 1, "LOAD", "resize:power-of-two", "%s()" % f.name, "size comes from aws_round_up_to_power_of_two")


def nonzero_hash(R, P, fns):
    f = fns["s_hash_for"]
    num = Num(f, P, HtHooks())
    rets = [e for b in f.blocks.values() for e in b.elems if e["k"] == "ret"]
    sts = num.states_at({r["id"] for r in rets})
    n = 0
    for r in rets:
        for st in sts.get(r["id"], []):
            v = num.val(r["a"][0], st)
            n += 1
            R.check(v is not None and entails(st, Poly.const(1) - v), "NONZERO-HASH", "s_hash_for:returns>=1", "%s:%d in s_hash_for()" % (f.file.replace("/repo/", ""), r["loc"][0]),
                    "returned hash code >= 1", "s_hash_for can return %r: a zero hash code marks the slot empty and the entry is lost" % v)
    R.require(n >= 2, "s_hash_for: expected at least two returns")
    # the code is a function of the key alone: a code that depends on table state changes across a resize and the entry is lost
    reads = sorted({e.node["f"] for e in f.field_accesses(rec=ST) if e.mode in ("r", "rw")})
    R.check(reads == ["hash_fn"], "NONZERO-HASH", "s_hash_for:function-of-key-only", "s_hash_for()", "reads no table state except hash_fn",
            "s_hash_for reads %s: the hash code of a key would change when the table changes (resize), so stored entries are no longer found" % [r for r in reads if r != "hash_fn"])
    for name, g in sorted(fns.items()):
        for e in g.indirect_calls():
            via = RU.indirect_via(g, e.node)
            if via == (ST, "hash_fn"):
                R.check(name == "s_hash_for", "NONZERO-HASH", "hash_fn-only-in-s_hash_for:%s" % name, where(g, e), "user hash reached only through s_hash_for")
        for e in g.calls("s_safe_eq_check") + [x for x in g.indirect_calls() if RU.indirect_via(g, x.node) == (ST, "equals_fn")]:
            pass
    # stored hash codes derive from s_hash_for or an existing slot
    for nm in ("aws_hash_table_create", "aws_hash_table_remove", "aws_hash_table_find"):
        g = fns.get(nm)
        if g:
            hs = g.calls("s_hash_for")
            fe = g.calls("s_find_entry")
            R.check(len(hs) == 1 and len(fe) == 1 and argstr(g, fe[0].node, 1, addr=False) == "hash_code" and argstr(g, fe[0].node, 2, addr=False) == "key", "NONZERO-HASH", "%s:probes-with-s_hash_for" % nm, "%s()" % nm,
                    "lookup uses s_hash_for(key)")
    c = fns["aws_hash_table_create"]
    st_h = [e for e in c.field_accesses(rec="hash_table_entry", field="hash_code", modes=("w",))]
    R.check(len(st_h) == 1 and c.show(_assignment_of(c, st_h[0])["a"][1]) == "hash_code", "NONZERO-HASH", "create:stores-s_hash_for-code", "%s()" % c.name, "the new entry stores the s_hash_for code")
    # NULL-safe equality: identical pointers are equal before anything else
    f = fns["s_safe_eq_check"]
    dom = dominators(f)
    for r in f.returns():
        v = RU.uncast(f, r.node["a"][0])
        g = gl(f, r, dom)
        if f.is_const(v) == 0:
            R.check(("a", "!=", "b") in g, "NONZERO-HASH", "eq:identical-pointers-first", where(f, r), "`false` for a NULL operand is returned only when the pointers differ (%s)" % g,
                    "the NULL test comes before the identity test: the NULL key is never equal to itself, so it can be inserted twice and never found or removed")
        elif v["k"] == "call" or v["k"] == "ref":
            R.check(("a", "!=", None) in g and ("b", "!=", None) in g, "NONZERO-HASH", "eq:user-fn-non-null", where(f, r), "the user's equality is never given NULL")
    for name, g in fns.items():
        for e in g.indirect_calls():
            if RU.indirect_via(g, e.node) == (ST, "equals_fn"):
                R.fail("NONZERO-HASH", "equals_fn-direct:%s" % name, where(g, e), "the user's equality is called without the NULL-safe wrapper")


def stale(R, fns):
    f = fns["aws_hash_table_create"]
    ex = f.calls("s_expand_table")
    if ex:
        for v in ("state", "entry", "probe_idx"):
            later = RU.dead_after(f, ex[0], v)
            R.check(not later, "STALE", "create:%s-refreshed-after-resize" % v, where(f, ex[0]), "`%s` is re-derived after the resize before it is used" % v,
                    "`%s` (derived from the pre-resize table) is used after s_expand_table at lines %s" % (v, [x.line for x in later][:3]))
    f = fns["aws_hash_table_put"]
    cr = f.calls("aws_hash_table_create")
    rd = [e for e in f.field_accesses(rec="aws_hash_table", field="p_impl", modes=("r",))]
    R.check(len(cr) == 1 and all(ev_dominates(f, cr[0], r) for r in rd) and len(rd) >= 1, "STALE", "put:p_impl-read-after-create", where(f, cr[0]) if cr else f.name,
            "map->p_impl is read after create (which may resize)", "put reads map->p_impl before aws_hash_table_create: after a resize it would use the released table")
    f = fns["s_expand_table"]
    dom = dominators(f)
    st = [e for e in f.field_accesses(rec="aws_hash_table", field="p_impl", modes=("w",))]
    rel = f.calls("aws_mem_release")
    em = f.calls("s_emplace_item")
    R.check(len(st) == 1 and len(rel) == 1 and len(em) == 1 and ev_dominates(f, st[0], rel[0], dom) and rel[0] in RU.reach_from(f, em[0]) and argstr(f, rel[0].node, 1, addr=False, alias=False) == "old_state", "STALE",
            "expand:rehash-install-release", "%s()" % f.name, "all entries rehashed, new state installed, then the old state released")
    loops = [f.show(b.cond) for b in f.blocks.values() if b.term == "for" and b.cond is not None]
    R.check(any("old_state->size" in c for c in loops), "STALE", "expand:rehash-all-slots", "%s()" % f.name, "rehash walks all old slots (%s)" % loops)


def slots(R, P, fns):
    hooks = HtHooks()
    n_ok = 0
    for name in ("s_find_entry", "s_find_entry1", "s_emplace_item", "s_expand_table", "s_remove_entry", "aws_hash_table_clear", "s_get_next_element", "aws_hash_iter_delete", "aws_hash_table_eq"):
        f = fns.get(name)
        if f is None:
            continue
        num = Num(f, P, hooks)
        sites = [s for s in access_sites(f, include_addr=True) if s[1] == "index" and "slots" in f.show(s[2]["a"][0])]
        try:
            states = num.states_at({s[0] for s in sites})
        except Limit as ex:
            R.broken(str(ex))
            continue
        for eid, kind, n in sites:
            inst = "%s:%s" % (name, f.show(n))
            if (name, f.show(n)) in ASSUMED:
                R.assumed_sites.append({"site": inst, "reason": ASSUMED[(name, f.show(n))]})
                continue
            status, det = "ok", ""
            for st in states.get(eid, []):
                s2 = st.copy()
                if name == "s_get_next_element":
                    # iterator validity: limit <= size
                    pass
                for (D, sz, mode) in addr_size(num, s2, kind, n):
                    r = in_bounds(s2, D, sz)
                    if r[0] != "ok":
                        status, det = r[0], r[1]
                    elif not det:
                        det = r[1]
            if status == "ok" and states.get(eid):
                n_ok += 1
                R.ok("SLOT", inst, where(f, n), det)
            elif name == "s_get_next_element":
                R.assumed_sites.append({"site": inst, "reason": "iterator validity: limit <= size of the iterated table"})
            elif states.get(eid):
                R.fail("SLOT", inst, where(f, n), "slot index not provably below size: " + det)
    R.require(n_ok >= 8, "only %d slot subscripts discharged (confirmed: >= 9)" % n_ok)


def iterator(R, P, fns):
    f = fns["aws_hash_iter_delete"]
    dom = dominators(f)
    dec = [e for e in f.field_accesses(rec="aws_hash_iter", field="limit", modes=("rw", "w"))]
    sl = [e for e in f.field_accesses(rec="aws_hash_iter", field="slot", modes=("rw", "w"))]
    rm = f.calls("s_remove_entry")
    R.require(len(dec) == 1 and len(sl) == 1 and len(rm) == 1, "iter_delete: expected one limit decrement, one slot step-back, one s_remove_entry")
    if dec and sl and rm:
        num = Num(f, P, HtHooks())
        d_el, s_el = num.elem_of.get(dec[0].node["id"]), num.elem_of.get(sl[0].node["id"])
        d_id = f.blocks[d_el[0]].elems[d_el[1]]["id"]
        s_id = f.blocks[s_el[0]].elems[s_el[1]]["id"]
        sts = num.states_at({d_id, s_id})
        last = None

        def vals(st):
            it = st.env.get("v:iter")
            if it is None:
                return None, None, None, None
            slot = num.field(st, "(%r)->slot" % it, "aws_hash_iter", "slot")
            lim = num.field(st, "(%r)->limit" % it, "aws_hash_iter", "limit")
            return st.env.get("v:last_index"), slot, lim, st.notes.get("orig", {}).get("(%r)->limit" % it)

        n1 = 0
        for st in sts.get(d_id, []):
            last, slot, lim, _ = vals(st)
            n1 += 1
            ok = last is not None and slot is not None and lim is not None and (entails(st, last - slot + 1) or entails(st, lim - last))
            R.check(ok, "ITER", "limit-shrinks-only-when-shift-left-window", where(f, dec[0]), "limit-- only when last_index < slot or last_index >= limit",
                    "the limit is decremented although the back-shift ended inside the window (last=%r slot=%r limit=%r)" % (last, slot, lim))
        n2 = 0
        for st in sts.get(s_id, []):
            last, slot, lim, lim0 = vals(st)
            if lim is None or lim0 is None or lim != Poly.atom(lim0):
                continue  # this trace decremented
            n2 += 1
            ok = last is not None and slot is not None and entails(st, slot - last) and entails(st, last - lim + 1)
            R.check(ok, "ITER", "limit-kept-only-when-shift-stayed-in-window", where(f, sl[0]), "limit kept only when slot <= last_index < limit",
                    "the limit is kept although the back-shift may have ended at or beyond it (last=%r limit=%r): an entry shifted across the wrap point is visited twice" % (last, lim))
        R.require(n1 >= 1 and n2 >= 1, "iter_delete: limit adjustment traces not found (%d/%d)" % (n1, n2))
        tgt = RU.resolve(f, RU.arg(f, rm[0].node, 1))
        if tgt is not None and tgt["k"] == "un" and tgt["op"] == "addr":
            tgt = RU.resolve(f, tgt["a"][0])
        cur_slot = False
        if tgt is not None and tgt["k"] == "index":
            b_, i_ = RU.resolve(f, tgt["a"][0]), RU.resolve(f, tgt["a"][1])
            while b_ is not None and b_["k"] == "decay":
                b_ = RU.resolve(f, b_["a"][0])
            cur_slot = b_ is not None and b_["k"] == "member" and b_["f"] == "slots" and i_ is not None and i_["k"] == "member" and i_["f"] == "slot" and i_.get("rec") == "aws_hash_iter"
        R.check(cur_slot and ev_dominates(f, rm[0], dec[0], dom) and ev_dominates(f, rm[0], sl[0], dom), "ITER", "removes-current-slot", where(f, rm[0]), "the iterator's current slot is removed first")
        tsx = Typestate(f, 0, lambda e, s: min(s + 1, 2) if e is sl[0] else s)
        R.check(tsx.exit_states == {1}, "ITER", "slot-steps-back-once", where(f, sl[0]), "slot decremented exactly once")
        stt = [e for e in f.field_accesses(rec="aws_hash_iter", field="status", modes=("w",))]
        R.check(len(stt) == 1 and (f.d(_assignment_of(f, stt[0])["a"][1]) or {}).get("name") == "AWS_HASH_ITER_STATUS_DELETE_CALLED", "ITER", "status-delete-called", "%s()" % f.name, "status set to DELETE_CALLED")
    f = fns["aws_hash_iter_done"]
    okd = False
    for e in f.all_events():
        if e.kind == "decl":
            for v in e.node["vars"]:
                i = RU.uncast(f, v.get("init")) if v.get("init") else None
                if i is not None and i["k"] == "bin" and i["op"] == "==" and {f.show(i["a"][0]), f.show(i["a"][1])} == {"iter->slot", "iter->limit"}:
                    okd = True
    R.check(okd, "ITER", "done-is-equality", "%s()" % f.name, "done() tests slot == limit (slot may be SIZE_MAX after deleting slot 0)", "done() is no longer an equality test on slot and limit")


def iter_park(R, P, fns):
    """ITER/parked-at-limit: when no further entry exists the iterator is parked with slot == limit (NUM), the very test
    aws_hash_iter_done makes; a delete may have lowered limit below the table size, so `slot = size` is not `done`"""
    f = fns["s_get_next_element"]
    num = Num(f, P, HtHooks())
    try:
        sts = num.states_at({-1})
    except Limit as ex:
        R.broken(str(ex))
        return
    done = P.enums.get("AWS_HASH_ITER_STATUS_DONE")
    ok, det, n = True, "", 0
    for st in sts.get(-1, []):
        stv = [v for k, v in st.env.items() if k.endswith(")->status")]
        if not (len(stv) == 1 and stv[0].is_const() and stv[0].cval() == done):
            continue
        n += 1
        sl = [v for k, v in st.env.items() if k.endswith(")->slot")]
        lm = [v for k, v in st.env.items() if k.endswith(")->limit")]
        if len(sl) != 1 or len(lm) != 1 or not (entails(st, sl[0] - lm[0]) and entails(st, lm[0] - sl[0])):
            ok, det = False, "slot = %s, limit = %s" % (sl, lm)
    ready = P.enums.get("AWS_HASH_ITER_STATUS_READY_FOR_USE")
    ok2, det2, n2 = True, "", 0
    for st in sts.get(-1, []):
        stv = [v for k, v in st.env.items() if k.endswith(")->status")]
        if not (len(stv) == 1 and stv[0].is_const() and stv[0].cval() == ready):
            continue
        n2 += 1
        sl = [v for k, v in st.env.items() if k.endswith(")->slot")]
        lm = [v for k, v in st.env.items() if k.endswith(")->limit")]
        if len(sl) != 1 or len(lm) != 1 or not entails(st, sl[0] - lm[0] + 1):
            ok2, det2 = False, "slot = %s, limit = %s" % (sl, lm)
    R.check(ok2 and n2 >= 1 and ready is not None, "ITER", "scan-below-limit", "s_get_next_element()", "status READY_FOR_USE is stored only with slot < limit: the scan stops at the iterator's limit (%d states)" % n2,
            "the scan can yield a slot at or beyond the iterator's limit (%s): an entry a deletion shifted across the wrap point is visited twice" % det2)
    R.check(ok and n >= 1 and done is not None, "ITER", "exhausted-iterator-parked-at-limit", "s_get_next_element()", "status DONE is stored together with slot == limit (%d states)" % n,
            "an exhausted iterator is parked with %s: after a deletion has lowered the limit aws_hash_iter_done never becomes true and the loop keeps yielding a NULL element" % det)


PAIRS_HE = [("aws_hash_c_string", "aws_hash_callback_c_str_eq"), ("aws_hash_string", "aws_hash_callback_string_eq"), ("aws_hash_uint64_t_by_identity", "aws_hash_compare_uint64_t_eq"),
            ("aws_hash_byte_cursor_ptr", None), ("aws_hash_ptr", "aws_ptr_eq")]


def content_pairs(R, P):
    """HASH-ALIGN/content: the library's hash functions for keys that are compared by CONTENT hash the content: the key pointer
    is only dereferenced / handed to a reader of the pointee, its own value (the address) never enters the hash - equal keys
    stored at different addresses hash equally.  (aws_hash_ptr / aws_ptr_eq compare and hash the pointer itself.)"""
    n = 0
    for hn, en in PAIRS_HE:
        h = P.fn(hn)
        if not R.require(h is not None, "%s not found" % hn):
            continue
        R.fn(h)
        by_content = en != "aws_ptr_eq"
        if not by_content:
            continue
        pn = h.params[0]["n"]
        bad = []
        for b in h.blocks.values():
            for el in b.elems:
                for x in h.walk(el):
                    if x["k"] == "un" and x["op"] == "addr" and any(y["k"] == "var" and y["n"] == pn for y in h.walk(x["a"][0], follow_refs=True)) and h.d(x["a"][0])["k"] == "var":
                        bad.append("&" + pn)
                    if x["k"] == "cast" and "w" in h.unit.types[x["t"]] and not h.unit.types[x["t"]].get("ptr"):
                        o = RU.uncast(h, x["a"][0])
                        if o is not None and o["k"] == "var" and o["n"] == pn:
                            bad.append("(integer)" + pn)
        n += 1
        R.check(not bad, "HASH-ALIGN", "content-hash:%s" % hn, "%s()" % hn, "the key pointer is only dereferenced: the hash is a function of the key's content",
                "%s uses the key pointer's own value (%s): two equal keys stored at different addresses hash differently, so a stored key is not found through an equal key object" % (hn, sorted(set(bad))))
    R.require(n >= 3, "only %d content hash functions checked" % n)


def slots_zeroed(R, P, fns):
    """COUNT/slots-start-empty: a new slot array is all zero (hash code 0 = empty): the state comes from aws_mem_calloc
    over the whole required size, or a memset covers size * sizeof(struct hash_table_entry) bytes of the slots"""
    f = fns.get("s_alloc_state")
    if not R.require(f is not None, "s_alloc_state not found"):
        return
    cal = [e for e in f.calls("aws_mem_calloc") if "required_bytes" in f.show(e.node)]
    esz = (P.records.get("hash_table_entry") or {}).get("size")
    ms = f.calls({"memset", "__builtin_memset", "__builtin___memset_chk"})
    okz = bool(cal)
    det = "no aws_mem_calloc(required_bytes)"
    if not okz and ms and esz:
        for e in ms:
            sz = f.show(RU.arg(f, e.node, 2)).replace(" ", "")
            tsz = [y for y in f.walk(RU.arg(f, e.node, 2), follow_refs=True) if y["k"] == "int" or f.is_const(y) is not None]
            consts = {f.is_const(y) for y in f.walk(RU.arg(f, e.node, 2), follow_refs=True) if f.is_const(y) is not None}
            if "slots" in f.show(RU.arg(f, e.node, 0)) and f.is_const(RU.arg(f, e.node, 1)) == 0 and esz in consts and "size" in sz:
                okz = True
            det = "memset(%s, 0, %s) with sizeof(struct hash_table_entry) = %s" % (f.show(RU.arg(f, e.node, 0)), f.show(RU.arg(f, e.node, 2)), esz)
    R.check(okz, "COUNT", "alloc:slots-start-empty", "s_alloc_state()", "the new state is calloc'ed over required_bytes (or its slots are zeroed at the entry size)",
            "a fresh slot array is not completely zeroed (%s): with memory that is not already zero the tail of the array holds phantom entries (non-zero hash codes), destructors run on garbage and probing may not terminate" % det)


def hash_align(R, P):
    for fname in ("hashlittle2", "hashlittle"):
        f = P.fn(fname)
        if not R.require(f is not None, "%s (lookup3.inl) not found" % fname):
            return
        R.fn(f)
        conds = [f.show(b.cond) for b in f.blocks.values() if b.term == "while" and b.cond is not None]
        R.check(len(conds) == 3 and len(set(conds)) == 1 and conds[0] == "(length > 12)", "HASH-ALIGN", "%s:block-loops-agree" % fname, "include/aws/common/private/lookup3.inl",
                "the 32-bit, 16-bit and byte-wise variants all run `while (length > 12)`", "the alignment variants of %s loop on %s: equal keys at different alignments hash differently" % (fname, conds))
        sw = [b for b in f.blocks.values() if b.term == "switch"]
        cases = []
        for b in sw:
            cs = sorted(f.blocks[s].case for s in b.succ if s is not None and f.blocks[s].case is not None)
            cases.append(cs)
        R.check(len(cases) >= 3 and all(c == list(range(0, 13)) for c in cases), "HASH-ALIGN", "%s:tails-agree" % fname, "lookup3.inl", "every variant handles tail lengths 0..12 (%d switches)" % len(cases),
                "tail switches cover %s" % cases)
    for nm in ("aws_hash_c_string", "aws_hash_string", "aws_hash_byte_cursor_ptr"):
        g = P.fn(nm)
        if g:
            R.check(len(g.calls("hashlittle2")) == 1, "HASH-ALIGN", "%s:uses-hashlittle2" % nm, "%s()" % nm, "library hash built on hashlittle2")
    ignore_case_pair(R, P)


def ignore_case_pair(R, P):
    """the case-insensitive hash / equality pair agree: both look at every byte only through s_tolower_table, the table
    folds exactly 'A'..'Z', so keys the equality calls equal hash equally"""
    h, q = P.fn("aws_hash_array_ignore_case"), P.fn("aws_array_eq_ignore_case")
    tb = P.globals.get("s_tolower_table")
    if not R.require(h is not None and q is not None and tb is not None, "case-insensitive hash/equality pair or s_tolower_table not found"):
        return
    R.fn(h)
    R.fn(q)
    arr = (tb.get("init") or {}).get("array") if isinstance(tb.get("init"), dict) else None
    vals = [x.get("int") for x in arr] if arr else []
    want = [(c_ + 32 if 65 <= c_ <= 90 else c_) for c_ in range(256)]
    R.check(vals == want, "HASH-ALIGN", "ignore-case:table-folds-A-Z-only", "source/byte_buf.c:%s" % tb.get("line"), "s_tolower_table maps 'A'..'Z' to 'a'..'z' and every other byte to itself",
            "s_tolower_table differs from ASCII lower-casing at %s" % [i for i in range(min(len(vals), 256)) if vals[i] != want[i]][:5])

    def through_table(f, n):
        x = RU.uncast(f, n)
        while x is not None and x["k"] == "cast":
            x = f.d(x["a"][0])
        if x is not None and x["k"] == "var" and x.get("sc") == "local":
            for e in f.all_events():
                if e.kind == "decl":
                    for v in e.node["vars"]:
                        if v["n"] == x["n"] and v.get("init") is not None:
                            return through_table(f, v["init"])
            return False
        return x is not None and x["k"] == "index" and f.show(f.d(x["a"][0])) in ("s_tolower_table",)
    # hash: everything folded into the hash besides constants is a table read
    folded = []
    for b in h.blocks.values():
        for el in b.elems:
            for x in h.walk(el):
                if x["k"] == "bin" and x["op"] in ("^=", "+=", "|=", "=") and h.show(h.d(x["a"][0])) == "hash" and h.is_const(x["a"][1]) is None:
                    rhs = h.d(x["a"][1])
                    if x["op"] == "=" and rhs is not None and rhs["k"] == "bin":
                        folded.extend(a for a in rhs["a"] if h.show(h.d(a)) != "hash" and h.is_const(a) is None)
                    elif h.show(rhs) not in ("fnv_prime", "fnv_offset_basis"):
                        folded.append(x["a"][1])
    R.check(bool(folded) and all(through_table(h, a) for a in folded), "HASH-ALIGN", "ignore-case:hash-reads-through-table", "%s()" % h.name, "every byte folded into the hash is s_tolower_table[byte] (%d sites)" % len(folded),
            "aws_hash_array_ignore_case folds %s into the hash: some byte values bypass the lower-casing table that the equality applies, so equal keys (differing only in case) hash differently and are not found" % [h.show(a) for a in folded if not through_table(h, a)])
    cmps = []
    for b in q.blocks.values():
        for el in list(b.elems) + ([b.cond] if b.cond is not None else []):
            for x in q.walk(el):
                if x["k"] == "bin" and x["op"] in ("!=", "==") and any(y["k"] == "index" for y in q.walk(x, follow_refs=True)):
                    cmps.append(x)
    R.check(bool(cmps) and all(through_table(q, a) for x in cmps for a in x["a"]), "HASH-ALIGN", "ignore-case:equality-reads-through-table", "%s()" % q.name, "bytes are compared as s_tolower_table[a[i]] vs s_tolower_table[b[i]]",
            "aws_array_eq_ignore_case compares bytes without the lower-casing table on one side")


MUTANTS = [
    {"name": "expand-doubles-the-load-limit", "file": HT, "expect": "LOAD", "old": "    if (aws_mul_size_checked(template.size, 2, &new_size)) {", "new": "    if (aws_mul_size_checked(template.max_load, 2, &new_size)) {"},
    {"name": "cursor-eq-same-address-shortcut", "file": "source/byte_buf.c", "expect": "HASH-ALIGN", "old": "    bool rv = aws_array_eq(a->ptr, a->len, b->ptr, b->len);", "new": "    bool rv = (a->ptr == b->ptr) || aws_array_eq(a->ptr, a->len, b->ptr, b->len);"},
    {"name": "exhausted-iterator-parked-at-size", "file": HT, "expect": "ITER", "old": "    iter->slot = iter->limit;\n    iter->status = AWS_HASH_ITER_STATUS_DONE;", "new": "    iter->slot = state->size;\n    iter->status = AWS_HASH_ITER_STATUS_DONE;"},
    {"name": "u64-hash-of-the-key-address", "file": HT, "expect": "HASH-ALIGN", "old": "    return *(uint64_t *)item;", "new": "    uint64_t value;\n    memcpy(&value, &item, sizeof(value));\n    return value;"},
    {"name": "slots-zeroed-at-element-size", "file": HT, "expect": "COUNT", "old": "    struct hash_table_state *state = aws_mem_calloc(template->alloc, 1, required_bytes);", "new": "    struct hash_table_state *state = aws_mem_acquire(template->alloc, required_bytes);\n    if (state) { memset(state->slots, 0, template->size * sizeof(struct aws_hash_element)); }"},
    {"name": "value-destructor-needs-key-destructor", "file": HT, "expect": "DESTRUCT", "old": "        if (p_elem->key != key && state->destroy_key_fn) {\n            state->destroy_key_fn((void *)p_elem->key);\n        }\n\n        if (state->destroy_value_fn) {\n            state->destroy_value_fn((void *)p_elem->value);\n        }",
     "new": "        if (state->destroy_key_fn) {\n            if (p_elem->key != key) {\n                state->destroy_key_fn((void *)p_elem->key);\n            }\n            if (state->destroy_value_fn) {\n                state->destroy_value_fn((void *)p_elem->value);\n            }\n        }"},
    {"name": "ignore-case-hash-skips-table-for-Z", "file": "source/byte_buf.c", "expect": "HASH-ALIGN", "old": "        const uint8_t lower = s_tolower_table[*i++];", "new": "        const uint8_t c = *i++;\n        const uint8_t lower = (c < 'Z') ? s_tolower_table[c] : c;"},
    {"name": "remove-destroys-lookup-key", "file": HT, "expect": "DESTRUCT", "old": "            state->destroy_key_fn((void *)entry->element.key);\n        }\n        if (state->destroy_value_fn) {\n            state->destroy_value_fn(entry->element.value);\n        }\n    }\n    s_remove_entry(state, entry);",
     "new": "            state->destroy_key_fn((void *)key);\n        }\n        if (state->destroy_value_fn) {\n            state->destroy_value_fn(entry->element.value);\n        }\n    }\n    s_remove_entry(state, entry);"},
    {"name": "zero-hash-becomes-size", "file": HT, "expect": "NONZERO-HASH", "old": "    if (!hash_code) {\n        hash_code = 1;\n    }", "new": "    if (!hash_code) {\n        hash_code = (uint64_t)state->size;\n    }"},
    {"name": "foreach-delete-destroys", "file": HT, "expect": "DESTRUCT", "old": "aws_hash_iter_delete(&iter, false);", "new": "aws_hash_iter_delete(&iter, true);"},
    {"name": "iter-limit-gt", "file": HT, "expect": "ITER", "old": "if (last_index < iter->slot || last_index >= iter->limit) {", "new": "if (last_index < iter->slot || last_index > iter->limit) {"},
    {"name": "null-test-before-identity", "file": HT, "expect": "NONZERO-HASH",
     "old": "    if (a == b) {\n        return true;\n    }\n    /* If one but not both are null, the objects are not equal */\n    if (a == NULL || b == NULL) {\n        return false;\n    }",
     "new": "    if (a == NULL || b == NULL) {\n        return false;\n    }\n    if (a == b) {\n        return true;\n    }"},
    {"name": "zero-hash-passes", "file": HT, "expect": "NONZERO-HASH", "old": "    if (!hash_code) {\n        hash_code = 1;\n    }", "new": ""},
    {"name": "put-destroys-new-key", "file": HT, "expect": "DESTRUCT", "old": "if (p_elem->key != key && state->destroy_key_fn) {", "new": "if (state->destroy_key_fn) {"},
    {"name": "remove-always-destroys", "file": HT, "expect": "DESTRUCT",
     "old": "    if (p_value) {\n        *p_value = entry->element;\n    } else {\n        if (state->destroy_key_fn) {", "new": "    if (p_value) {\n        *p_value = entry->element;\n    }\n    {\n        if (state->destroy_key_fn) {"},
    {"name": "stale-state-after-resize", "file": HT, "expect": "STALE", "old": "        state = map->p_impl;\n        /* If we expanded the table", "new": "        /* If we expanded the table"},
    {"name": "max-load-not-clamped", "file": HT, "expect": "LOAD", "old": "    if (template->max_load >= size) {\n        template->max_load = size - 1;\n    }", "new": ""},
    {"name": "probe-index-unmasked", "file": HT, "expect": "SLOT", "old": "        uint64_t index = (hash_code + probe_idx) & state->mask;", "new": "        uint64_t index = (hash_code + probe_idx) & state->size;"},
    {"name": "lookup3-odd-branch-ge", "file": "include/aws/common/private/lookup3.inl", "expect": "HASH-ALIGN", "old": "    while (length > 12)\n    {\n      a += k[0];\n      a += ((uint32_t)k[1])<<8;", "new": "    while (length >= 12)\n    {\n      a += k[0];\n      a += ((uint32_t)k[1])<<8;", "thorough_only": False},
]
