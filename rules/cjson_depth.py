"""nesting-depth counters of the vendored cJSON parser / printer (shared by C11 TREE-SHAPE and C04 RECUR)"""
from sa import rules as RU
from sa.cfg import Typestate, dominators

CJ = "source/external/cJSON.c"


def depth_balance(R, P, rule="TREE-SHAPE", names=("parse_array", "parse_object", "print_array", "print_object")):
    """DEPTH: the nesting counters of the vendored parser and printer are balanced: in parse_array / parse_object /
    print_array / print_object every path from the increment to a successful return passes exactly one decrement, so
    siblings do not use up the nesting limit (a document with 1000 empty arrays side by side re-parses) and the
    indentation depth of the formatted printer returns to its level."""
    n = 0
    for name in names:
        f = P.fn(name)
        if not R.require(f is not None, "%s not found in cJSON.c" % name):
            continue
        R.fn(f)
        incs, decs = [], []
        for e in f.all_events():
            if e.kind == "access" and e.node["k"] == "member" and e.node["f"] == "depth" and e.mode in ("rw", "w"):
                # find the enclosing ++/--
                for b in f.blocks.values():
                    for el in b.elems:
                        for x in f.walk(el):
                            if x["k"] == "un" and f.d(x["a"][0]) is e.node:
                                if "++" in x["op"] or x["op"] in ("postinc", "preinc"):
                                    incs.append(e)
                                elif "--" in x["op"] or x["op"] in ("postdec", "predec"):
                                    decs.append(e)
        if not R.require(len(incs) == 1 and len(decs) >= 1, "%s: depth increment / decrement not found (%d/%d)" % (name, len(incs), len(decs))):
            continue
        ts = Typestate(f, 0, lambda e, s: min(s + 1, 3) if any(e is i for i in incs) else (s - 1 if any(e is d for d in decs) and s > -2 else s))
        bad = []
        for r_ in f.returns():
            v = RU.uncast(f, r_.node["a"][0]) if r_.node["a"] else None
            while v is not None and v["k"] == "cast":
                v = f.d(v["a"][0])
            if v is not None and f.is_const(v) == 1:
                sts_ = ts.before.get(r_.pos, set())
                n += 1
                if sts_ != {0}:
                    bad.append((r_.node["loc"][0], sorted(sts_)))
        R.check(not bad, rule, "depth-balanced:%s" % name, "%s in %s()" % (CJ, name), "every successful return has undone the depth increment",
                "a successful return of %s leaves the nesting counter changed (line, net change: %s): each such value permanently uses up one level of the nesting limit, so valid output of the serialiser (many empty arrays side by side) is refused on re-parsing" % (name, bad))
    R.require(n >= len(names), "depth balance: only %d successful returns analysed" % n)


def nesting_limit(R, P, rule="RECUR"):
    """the recursive container parsers refuse at CJSON_NESTING_LIMIT before they count the level and before they descend"""
    for name in ("parse_array", "parse_object"):
        f = P.fn(name)
        if not R.require(f is not None, "%s not found in cJSON.c" % name):
            continue
        R.fn(f)
        dom = dominators(f)
        lim = [b for b in f.blocks.values() if b.cond is not None and "depth" in f.show(b.cond) and RU.cmp_norm(f, b.cond, True) and RU.cmp_norm(f, b.cond, True)[1] in (">=", ">")]
        okl = False
        if len(lim) == 1:
            t = RU.cmp_norm(f, lim[0].cond, True)
            okl = t[2] is not None and f.is_const(t[2]) is not None and 0 < f.is_const(t[2]) <= 100000 and t[1] == ">="
        desc = f.calls("parse_value")
        inc = [e for e in f.all_events() if e.kind == "access" and e.node["k"] == "member" and e.node["f"] == "depth" and e.mode in ("rw", "w")]
        okd = bool(desc) and len(lim) == 1 and all(lim[0].id in dom.get(e.blk, ()) and e.blk != lim[0].id for e in desc)
        R.check(okl and okd, rule, "cjson:%s:nesting-limit" % name, "%s in %s()" % (CJ, name), "depth >= limit is refused before any descent into parse_value",
                "the nesting limit of %s is not tested (with >= against a constant) before the recursive descent: deeply nested input recurses until the stack is exhausted" % name)
