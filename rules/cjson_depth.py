"""nesting-depth counters of the vendored cJSON parser / printer (shared by C11 TREE-SHAPE and C04 RECUR)"""
from sa import rules as RU
from sa.cfg import Typestate, dominators

CJ = "source/external/cJSON.c"


def depth_balance(R, P, rule="TREE-SHAPE", names=("parse_array", "parse_object", "print_array", "print_object")):
    """DEPTH: the nesting counters of the vendored parser and printer are balanced: in parse_array / parse_object /
    print_array / print_object every path from the increment to a successful return passes exactly one decrement, so
    siblings do not use up the nesting limit (a document with 1000 empty arrays side by side re-parses) and the
    indentation depth of the formatted printer returns to its level."""
    n = 0
    for name in names:
        f = P.fn(name)
        if not R.require(f is not None, "%s not found in cJSON.c" % name):
            continue
        R.fn(f)
        incs, decs = [], []
        for e in f.all_events():
            if e.kind == "access" and e.node["k"] == "member" and e.node["f"] == "depth" and e.mode in ("rw", "w"):
                # find the enclosing ++/--
                for b in f.blocks.values():
                    for el in b.elems:
                        for x in f.walk(el):
                            if x["k"] == "un" and f.d(x["a"][0]) is e.node:
                                if "++" in x["op"] or x["op"] in ("postinc", "preinc"):
                                    incs.append(e)
                                elif "--" in x["op"] or x["op"] in ("postdec", "predec"):
                                    decs.append(e)
        if not R.require(len(incs) == 1 and len(decs) >= 1, "%s: depth increment / decrement not found (%d/%d)" % (name, len(incs), len(decs))):
            continue
        ts = Typestate(f, 0, lambda e, s: min(s + 1, 3) if any(e is i for i in incs) else (s - 1 if any(e is d for d in decs) and s > -2 else s))
        bad = []
        for r_ in f.returns():
            v = RU.uncast(f, r_.node["a"][0]) if r_.node["a"] else None
            while v is not None and v["k"] == "cast":
                v = f.d(v["a"][0])
            if v is not None and f.is_const(v) == 1:
                sts_ = ts.before.get(r_.pos, set())
                n += 1
                if sts_ != {0}:
                    bad.append((r_.node["loc"][0], sorted(sts_)))
        R.check(not bad, rule, "depth-balanced:%s" % name, "%s in %s()" % (CJ, name), "every successful return has undone the depth increment",
                "a successful return of %s leaves the nesting counter changed (line, net change: %s): each such value permanently uses up one level of the nesting limit, so valid output of the serialiser (many empty arrays side by side) is refused on re-parsing" % (name, bad))
    R.require(n >= len(names), "depth balance: only %d successful returns analysed" % n)


def nesting_limit(R, P, rule="RECUR"):
    """the recursive container parsers refuse at CJSON_NESTING_LIMIT before they count the level and before they descend"""
    for name in ("parse_array", "parse_object"):
        f = P.fn(name)
        if not R.require(f is not None, "%s not found in cJSON.c" % name):
            continue
        R.fn(f)
        dom = dominators(f)
        lim = [b for b in f.blocks.values() if b.cond is not None and "depth" in f.show(b.cond) and RU.cmp_norm(f, b.cond, True) and RU.cmp_norm(f, b.cond, True)[1] in (">=", ">")]
        okl = False
        if len(lim) == 1:
            t = RU.cmp_norm(f, lim[0].cond, True)
            okl = t[2] is not None and f.is_const(t[2]) is not None and 0 < f.is_const(t[2]) <= 100000 and t[1] == ">="
        desc = f.calls("parse_value")
        inc = [e for e in f.all_events() if e.kind == "access" and e.node["k"] == "member" and e.node["f"] == "depth" and e.mode in ("rw", "w")]
        okd = bool(desc) and len(lim) == 1 and all(lim[0].id in dom.get(e.blk, ()) and e.blk != lim[0].id for e in desc)
        R.check(okl and okd, rule, "cjson:%s:nesting-limit" % name, "%s in %s()" % (CJ, name), "depth >= limit is refused before any descent into parse_value",
                "the nesting limit of %s is not tested (with >= against a constant) before the recursive descent: deeply nested input recurses until the stack is exhausted" % name)


# ----------------------------------------------------------------------------------------------------------------------
# room of the vendored printer: every byte written through the pointer ensure() returned lies inside the room asked for
from sa.num import Num, Poly, Limit, entails
from sa.awslib import AwsHooks, in_bounds
from sa.bounds import access_sites, addr_size

NESTED_PRINTERS = {"print_value": 1, "print_string_ptr": 1, "print_string": 1, "print_number": 1, "update_offset": 0, "print_array": 1, "print_object": 1}


class PrintHooks(AwsHooks):
    """ensure(p, n) yields NULL or a pointer to n + 1 writable bytes (ENSURE, verified on its body below); the nested printers
    change offset / buffer / length of the print buffer but leave depth and format alone (depth-balanced, checked above);
    the nesting depth of a tree being printed is below 2^32"""

    def fresh_field(self, num, st, key, rec, f, atom):
        if rec == "printbuffer" and f == "depth":
            st.add(Poly.atom(atom) - 2 ** 32)
            st.add(-Poly.atom(atom))
            return
        if rec == "printbuffer" and f in ("length", "offset"):
            st.add(Poly.atom(atom) - 2 ** 62)
            st.add(-Poly.atom(atom))
            return
        AwsHooks.fresh_field(self, num, st, key, rec, f, atom)

    def _pb_keys(self, num, st, e, ai):
        s2 = st.copy()
        bv = num.val(num.fn.d(e["a"][ai]), s2) if ai < len(e.get("a", [])) else None
        if bv is None:
            return None
        base = num.base_of(st, bv)
        return [(base + f_, "printbuffer", f_) for f_ in ("offset", "buffer", "length")]

    def call_modifies(self, num, st, e):
        c = e.get("callee") or ""
        if c in NESTED_PRINTERS:
            return self._pb_keys(num, st, e, NESTED_PRINTERS[c])
        if c == "ensure":
            ks = self._pb_keys(num, st, e, 0)
            return [k for k in ks if k[2] != "offset"] if ks else None
        return None

    def call(self, num, st, e, args):
        c = e.get("callee") or ""
        if c == "ensure" and num.fn.name != "ensure":
            outs = []
            s1 = st.copy()
            p = num.fresh(s1, "room", None, (1, 2 ** 62))
            if len(args) > 1 and args[1] is not None:
                s1.extent[p] = args[1] + 1
            ks = self._pb_keys(num, s1, e, 0) or []
            for k, rec, f_ in ks:
                if f_ != "offset":
                    s1.env.pop(k, None)
            s1.vals[e["id"]] = Poly.atom(p)
            outs.append(s1)
            s2 = st.copy()
            s2.vals[e["id"]] = Poly.const(0)
            outs.append(s2)
            return outs
        if c in NESTED_PRINTERS:
            for k, rec, f_ in (self._pb_keys(num, st, e, NESTED_PRINTERS[c]) or []):
                st.env.pop(k, None)
            t = num.ty(e)
            return Poly.atom(num.fresh(st, c, t)) if ("w" in t or t.get("ptr")) else None
        return AwsHooks.call(self, num, st, e, args)


def print_room(R, P, rule="PRINT-WRAP", names=("print_object", "print_array")):
    n_sites = 0
    for name in names:
        f = P.fn(name)
        if not R.require(f is not None, "%s not found in cJSON.c" % name):
            continue
        R.fn(f)
        num = Num(f, P, PrintHooks(), max_paths=40000)
        sites = [s for s in access_sites(f) if "output_pointer" in f.show(s[2])]
        try:
            sts = num.states_at({s[0] for s in sites})
        except Limit as ex:
            R.broken("NUM trace limit in %s: %s" % (name, ex))
            continue
        for eid, kind, nd in sites:
            ok, det, cnt = True, "", 0
            for st in sts.get(eid, []):
                s2 = st.copy()
                for (D, sz, mode) in addr_size(num, s2, kind, nd):
                    cnt += 1
                    r = in_bounds(s2, D, sz)
                    if r[0] != "ok":
                        ok, det = False, r[1]
            if cnt:
                n_sites += 1
                R.check(ok, rule, "print-room:%s:line%d" % (name, nd.get("loc", [0])[0]), "%s:%d in %s()" % (CJ, nd.get("loc", [0])[0], name), "the byte written lies inside the room ensure() was asked for (%d states)" % cnt,
                        "the printer writes through the pointer ensure() returned beyond the room it asked for: %s - for deep formatted output the serialiser writes past its heap block or aborts on a valid tree" % det)
    R.require(n_sites >= 12, "only %d printer write sites analysed" % n_sites)
    # ENSURE: the contract assumed above, from ensure()'s own body
    f = P.fn("ensure")
    if not R.require(f is not None, "ensure() not found in cJSON.c"):
        return
    R.fn(f)

    class EH(PrintHooks):
        def entry(self, num, st):
            p = num.read({"k": "var", "n": f.params[0]["n"], "sc": "param", "t": f.params[0]["t"], "id": -1}, st)
            n = num.read({"k": "var", "n": f.params[1]["n"], "sc": "param", "t": f.params[1]["t"], "id": -1}, st)
            base = num.base_of(st, p)
            buf = num.field(st, base + "buffer", "printbuffer", "buffer")
            ln = num.field(st, base + "length", "printbuffer", "length")
            off = num.field(st, base + "offset", "printbuffer", "offset")
            if len(buf.t) == 1:
                st.extent[list(buf.t)[0][0]] = ln
            st.notes["ens0"] = (n, base)

        def call(self, num, st, e, args):
            if e.get("callee") is None:
                via = RU.indirect_via(num.fn, e)
                if via and via[1] in ("reallocate", "allocate"):
                    outs = []
                    s1 = st.copy()
                    nb = num.fresh(s1, "newbuffer", None, (1, 2 ** 62))
                    if args and args[-1] is not None:
                        s1.extent[nb] = args[-1]
                    s1.vals[e["id"]] = Poly.atom(nb)
                    outs.append(s1)
                    s2 = st.copy()
                    s2.vals[e["id"]] = Poly.const(0)
                    outs.append(s2)
                    return outs
                if via and via[1] == "deallocate":
                    return None
            return PrintHooks.call(self, num, st, e, args)
    num = Num(f, P, EH(), max_paths=4000)
    rets = [x for b in f.blocks.values() for x in b.elems if x["k"] == "ret"]
    try:
        sts = num.states_at({r["id"] for r in rets})
    except Limit as ex:
        R.broken(str(ex))
        return
    ok, det, cnt = True, "", 0
    for r in rets:
        for st in sts.get(r["id"], []):
            rv = num.val(r["a"][0], st)
            if rv is None or (rv.is_const() and rv.cval() == 0):
                continue
            n0, base = st.notes["ens0"]
            cnt += 1
            res = in_bounds(st.copy(), rv, n0 + 1)
            if res[0] != "ok":
                ok, det = False, "line %d: %s" % (r["loc"][0], res[1])
    R.check(ok and cnt >= 2, rule, "print-room:ensure-contract", "%s in ensure()" % CJ, "a non-NULL result points at needed + 1 bytes inside the (possibly re-allocated) print buffer (%d states)" % cnt,
            "ensure() can return a pointer with less room than requested: %s" % det)
