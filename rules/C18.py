"""C18 - linked hash table and FIFO/LIFO/LRU caches (DESIGN.md section 4, C18)."""
from sa import rules as RU
from sa.cfg import Typestate, dominators, ev_dominates
from sa.rules import argstr, where

LHT = "source/linked_hash_table.c"
FILES = [LHT, "source/cache.c", "source/fifo_cache.c", "source/lifo_cache.c", "source/lru_cache.c"]

DECIDED = [
    "VICTIM: on overflow the key removed is the key of the node at the front of the same table's iteration list (FIFO, LRU) or of the node before the back (LIFO)",
    "EVICT: eviction happens after the insertion, exactly when count > max_items, at most once per put, under no further condition",
    "POLICY: LRU lookups move the entry to the back, FIFO/LIFO lookups do not touch the order; use-lru moves the front to the back, get-mru reads the back",
    "PUT: a re-inserted key destroys the old node first, then the old key when it is a different pointer, then installs the new key; the new node carries the caller's key and value, is linked to the element and appended to the list; a failed create releases the node",
    "DESTROY: the element destructor runs the user's value destructor (if set), unlinks the node, releases it - in that order, each once; key and element destructors are wired into the right slots of the hash table",
]
NOT_DECIDED = ["policy outcomes over histories (which entry is oldest after a sequence)", "hash table behaviour (C02)"]
ASSUMPTIONS = ["aws_hash_table and aws_linked_list behave per C02 / C09"]


def _assignment_of(f, ev):
    for b in f.blocks.values():
        for el in b.elems:
            for n in f.walk(el):
                if n["k"] == "bin" and n["op"] == "=" and f.d(n["a"][0]) is ev.node:
                    return n
    return None


def _assignment_of_value(f, valnode):
    """name of the variable that is assigned the value of this node (`x = call(...)`), or None"""
    for b in f.blocks.values():
        for el in b.elems:
            for n in f.walk(el):
                if n["k"] == "bin" and n["op"] == "=" and RU.uncast(f, n["a"][1]) is valnode:
                    l = f.d(n["a"][0])
                    if l is not None and l["k"] == "var":
                        return l["n"]
    return None


def decl_init(f, name):
    for e in f.all_events():
        if e.kind == "decl":
            for v in e.node["vars"]:
                if v["n"] == name:
                    return f.d(v.get("init")) if v.get("init") else None
    return None


def analyse(ctx, replace=None, only=None):
    R = ctx.R
    P = ctx.program(FILES, "ship", replace=replace)
    fns = {}
    for fl in FILES:
        for f in P.functions_in(fl):
            fns[f.name] = f
            R.fn(f)
    need = ["s_element_destroy", "aws_linked_hash_table_init", "aws_linked_hash_table_put", "aws_linked_hash_table_find", "aws_linked_hash_table_find_and_move_to_back",
            "aws_linked_hash_table_move_node_to_end_of_list", "s_fifo_cache_put", "s_lifo_cache_put", "s_lru_cache_put", "s_lru_cache_find", "s_lru_cache_use_lru_element",
            "s_lru_cache_get_mru_element", "aws_cache_base_default_find"]
    for n in need:
        if not R.require(n in fns, "anchor function %s not found" % n):
            return
    wrappers(R, fns)
    # every put of every cache flavour goes through the table's put (which runs the destructors of what it displaces and keeps
    # the key unique): no path returns without it
    from sa.cfg import Typestate as _TS
    for nm_ in ("s_fifo_cache_put", "s_lifo_cache_put", "s_lru_cache_put"):
        g_ = fns[nm_]
        puts_ = g_.calls("aws_linked_hash_table_put")
        ts_ = _TS(g_, 0, lambda e, s_, puts_=puts_: 1 if any(e is p_ for p_ in puts_) else s_)
        R.check(bool(puts_) and ts_.exit_states == {1}, "PUT", "%s:always-through-the-table" % nm_, "%s()" % nm_, "every path of the cache's put calls aws_linked_hash_table_put",
                "%s can return without calling aws_linked_hash_table_put (exit states %s): a value stored on that path replaces the old one without the value destructor being run for it" % (nm_, sorted(ts_.exit_states)))
    caches(R, P, fns)
    dispatchers(R, P, fns)
    table(R, P, fns)


FRONT = {"aws_linked_list_front", "aws_linked_list_begin"}   # the same node for a non-empty list (linked_list.inl)
BACK = {"aws_linked_list_back", "aws_linked_list_rbegin"}


def chase(f, n, use=None):
    """where a value comes from, seen through casts, temporaries, AWS_CONTAINER_OF arithmetic, `->prev`, `->key` and the
    list accessors: (tokens, final object string)"""
    toks = []
    for _ in range(12):
        n = RU.origin(f, n, use) if n is not None else None
        if n is None:
            break
        if n["k"] == "member" and n["f"] in ("key", "prev", "value"):
            toks.append(n["f"])
            n = n["a"][0]
        elif n["k"] == "bin" and n["op"] in ("-", "+") and f.is_const(n["a"][1]) is not None:
            n = n["a"][0]  # container_of: (T *)((uint8_t *)x - offsetof(T, node))
        elif n["k"] == "un" and n["op"] == "addr":
            m = f.d(n["a"][0])
            if m is not None and m["k"] == "member" and m["f"] == "node":
                n = m["a"][0]
                toks.append("&node")
            else:
                break
        elif n["k"] == "call" and n.get("callee") in FRONT | BACK | {"aws_linked_hash_table_get_iteration_list"}:
            toks.append(n["callee"])
            n = RU.arg(f, n, 0)
        elif n["k"] == "call" and n.get("callee") == "aws_linked_list_prev":
            toks.append("prev")  # linked_list.inl: returns node->prev
            n = RU.arg(f, n, 0)
        else:
            break
    obj = f.show(RU.strip_addr(f, n)) if n is not None else None
    return toks, obj


# the cache base's default operations are the table's own, applied to cache->table (checked: wrappers())
WRAPPED = {"aws_cache_base_default_remove": "aws_linked_hash_table_remove", "aws_cache_base_default_get_element_count": "aws_linked_hash_table_get_element_count"}


def table_calls(f, op):
    """[(event, table string)]: calls of the linked-hash-table operation `op` on a table, made directly or through the cache
    base's wrapper of it"""
    out = [(e, argstr(f, e.node, 0)) for e in f.calls(op)]
    for w, inner in WRAPPED.items():
        if inner == op:
            out += [(e, argstr(f, e.node, 0) + "->table") for e in f.calls(w)]
    return out


def table_of(f, n):
    """the table a call node of a table operation (or its wrapper) works on"""
    if n is None or n["k"] != "call":
        return None
    if n.get("callee") in WRAPPED:
        return argstr(f, n, 0) + "->table"
    return argstr(f, n, 0)


def wrappers(R, fns):
    for w, inner in sorted(WRAPPED.items()):
        g = fns.get(w)
        if not R.require(g is not None, "%s not found" % w):
            continue
        cs = g.calls(inner)
        ok = len(cs) == 1 and argstr(g, cs[0].node, 0) == g.params[0]["n"] + "->table" and all(argstr(g, cs[0].node, i, addr=False) == g.params[i]["n"] for i in range(1, len(g.params)))
        ok = ok and all(r_.node["a"] and RU.origin(g, r_.node["a"][0]) is cs[0].node for r_ in g.returns())
        R.check(ok, "POLICY", "%s:is-the-table-operation" % w, "%s()" % w, "%s(cache, ..) is %s(&cache->table, ..)" % (w, inner))


def list_nonempty_guard(f, c_, p_, table="cache->table"):
    """the decision `the iteration list of <table> is not empty` (aws_linked_list_empty false, or begin != end)"""
    cc, neg = RU.cond_call(f, c_)
    if cc is not None and cc.get("callee") == "aws_linked_list_empty" and (p_ == neg):
        t_, o_ = chase(f, RU.arg(f, cc, 0))
        return t_ == ["aws_linked_hash_table_get_iteration_list"] and o_ == table
    g_ = RU.cmp_norm(f, c_, p_)
    if g_ and g_[2] is not None and g_[1] == "!=":
        l_, r_ = RU.uncast(f, g_[0]), RU.uncast(f, g_[2])
        cs = sorted((x.get("callee") or "") for x in (l_, r_) if x is not None and x["k"] == "call")
        if cs == ["aws_linked_list_begin", "aws_linked_list_end"]:
            return all(chase(f, RU.arg(f, x, 0)) == (["aws_linked_hash_table_get_iteration_list"], table) for x in (l_, r_))
    return False


def caches(R, P, fns):
    for name, end, via_prev in (("s_fifo_cache_put", "aws_linked_list_front", False), ("s_lru_cache_put", "aws_linked_list_front", False), ("s_lifo_cache_put", "aws_linked_list_back", True)):
        f = fns[name]
        dom = dominators(f)
        put = f.calls("aws_linked_hash_table_put")
        rem_t = table_calls(f, "aws_linked_hash_table_remove")
        rem = [e for e, t_ in rem_t]
        R.require(len(put) == 1 and len(rem) == 1, "%s: expected one put and one remove" % name)
        if not (put and rem):
            continue
        R.check([argstr(f, put[0].node, i, addr=False) for i in (1, 2)] == ["key", "p_value"] and argstr(f, put[0].node, 0) == "cache->table", "EVICT", "%s:inserts-callers-entry" % name, where(f, put[0]),
                "the caller's key/value are inserted into the cache's table")
        R.check(ev_dominates(f, put[0], rem[0], dom), "EVICT", "%s:insert-before-evict" % name, where(f, rem[0]), "eviction happens after the insertion",
                "an entry is evicted before the new one is inserted: overwriting an existing key in a full cache evicts an unrelated entry")
        loops = [b for b in f.blocks.values() if b.term in ("while", "for", "do") and b.cond is not None and f.is_const(b.cond) is None]
        R.check(not loops, "EVICT", "%s:at-most-once" % name, "%s()" % name, "at most one eviction per put")
        # guards of the eviction
        kinds = []
        for c, p, b in RU.guards(f, rem[0], dom):
            t = RU.call_test(f, c, p)
            if t and t[0] is put[0].node and t[1] == "zero":
                kinds.append("put-ok")
                continue
            g = RU.cmp_norm(f, c, p)
            if not g:
                kinds.append("?")
                continue
            l, op, r = RU.origin(f, g[0], rem[0]), g[1], RU.origin(f, g[2], rem[0]) if g[2] is not None else None
            ls, rs = f.show(l), f.show(r) if r is not None else None
            COUNT = ("aws_linked_hash_table_get_element_count", "aws_cache_base_default_get_element_count")
            if r is not None and op == ">" and l["k"] == "call" and l.get("callee") in COUNT and table_of(f, l) == "cache->table" and rs == "cache->max_items":
                kinds.append("overflow")
            elif r is not None and op == "<" and r["k"] == "call" and r.get("callee") in COUNT and table_of(f, r) == "cache->table" and ls == "cache->max_items":
                kinds.append("overflow")
            elif list_nonempty_guard(f, c, p):
                kinds.append("list-not-empty")  # implied by count > max_items: never skips an eviction
            elif via_prev and ((l["k"] == "member" and l["f"] == "prev" and l.get("rec") == "aws_linked_list_node") or (l["k"] == "call" and l.get("callee") == "aws_linked_list_prev")) and op == "!=" and (r is None or f.is_const(r) == 0):
                kinds.append("has-predecessor")
            else:
                kinds.append("other:%s %s %s" % (ls, op, rs))
        R.check("overflow" in kinds, "EVICT", "%s:only-on-overflow" % name, where(f, rem[0]), "eviction guarded by count > max_items (%s)" % kinds,
                "the eviction is not guarded by element_count > max_items (guards: %s): the cache can exceed its maximum or evict without overflow" % kinds)
        extra = [k for k in kinds if k.startswith("other") or k == "?"]
        R.check(not extra, "EVICT", "%s:always-on-overflow" % name, where(f, rem[0]), "no further condition: every overflow evicts",
                "the eviction is subject to an extra condition %s: an overflowing cache can keep more than max_items entries" % extra)
        # victim provenance
        toks, obj = chase(f, RU.arg(f, rem[0].node, 1), rem[0])
        ends = FRONT if end == "aws_linked_list_front" else BACK
        want_shape = len(toks) >= 3 and toks[0] == "key" and toks[-1] == "aws_linked_hash_table_get_iteration_list" and toks[-2] in ends and (toks[1:-2] == (["prev"] if via_prev else []))
        ok = want_shape and obj == "cache->table"
        why = "the removed key comes from %s of %s" % (" <- ".join(toks), obj)
        R.check(ok and rem_t[0][1] == "cache->table", "VICTIM", name, where(f, rem[0]), "victim is the key of %s(iteration list)%s of the same table" % (end, "->prev" if via_prev else ""),
                "the evicted key does not come from %s of this cache's iteration list%s (%s): the wrong entry is evicted" % (end, "->prev" if via_prev else "", why))
    # POLICY
    vt = {n: (P.globals.get(n) or {}).get("init", {}).get("struct", {}) for n in ("s_fifo_cache_vtable", "s_lifo_cache_vtable", "s_lru_cache_vtable")}
    for n, want in (("s_fifo_cache_vtable", {"find": "aws_cache_base_default_find", "put": "s_fifo_cache_put"}), ("s_lifo_cache_vtable", {"find": "aws_cache_base_default_find", "put": "s_lifo_cache_put"}),
                    ("s_lru_cache_vtable", {"find": "s_lru_cache_find", "put": "s_lru_cache_put"})):
        for slot, fn_ in want.items():
            R.check(vt[n].get(slot, {}).get("fn") == fn_, "POLICY", "%s.%s" % (n, slot), n, "%s.%s = %s" % (n, slot, fn_), "%s.%s is %s" % (n, slot, vt[n].get(slot)))
        for slot in ("remove", "clear", "get_element_count", "destroy"):
            R.check(vt[n].get(slot, {}).get("fn") == "aws_cache_base_default_" + slot, "POLICY", "%s.%s" % (n, slot), n, "default %s" % slot)
    f = fns["s_lru_cache_find"]
    R.check(len(f.calls("aws_linked_hash_table_find_and_move_to_back")) == 1 and not f.calls("aws_linked_hash_table_find"), "POLICY", "lru-find-counts-as-use", "%s()" % f.name, "LRU lookup moves the entry to the back",
            "an LRU lookup no longer refreshes the entry")
    f = fns["aws_cache_base_default_find"]
    R.check(len(f.calls("aws_linked_hash_table_find")) == 1 and not f.calls({"aws_linked_hash_table_find_and_move_to_back", "aws_linked_hash_table_move_node_to_end_of_list"}), "POLICY", "fifo-lifo-find-keeps-order",
            "%s()" % f.name, "FIFO/LIFO lookups do not reorder", "a FIFO/LIFO lookup reorders the entries")
    f = fns["aws_linked_hash_table_find"]
    R.check(not f.calls({"aws_linked_list_remove", "aws_linked_list_push_back", "aws_linked_hash_table_move_node_to_end_of_list"}), "POLICY", "plain-find-keeps-order", "%s()" % f.name, "plain find does not touch the list")
    f = fns["aws_linked_hash_table_find_and_move_to_back"]
    mv = f.calls("aws_linked_hash_table_move_node_to_end_of_list")
    fc_ = f.calls("aws_hash_table_find")
    found_ = argstr(f, fc_[0].node, 2) if len(fc_) == 1 else "element"  # the variable the lookup fills in
    okmv = len(mv) == 1 and f.show(RU.origin(f, RU.arg(f, mv[0].node, 1), mv[0])) == found_ + "->value"
    if not mv:
        # the same two steps written in place: unlink the found node, append it to this table's list
        rm_, pb_ = f.calls("aws_linked_list_remove"), f.calls("aws_linked_list_push_back")
        if len(rm_) == 1 and len(pb_) == 1 and ev_dominates(f, rm_[0], pb_[0]):
            t1, o1 = chase(f, RU.arg(f, rm_[0].node, 0), rm_[0])
            t2, o2 = chase(f, RU.arg(f, pb_[0].node, 1), pb_[0])
            okmv = t1 == t2 == ["&node", "value"] and o1 == o2 == found_ and argstr(f, pb_[0].node, 0) == "table->list"
            mv = pb_
    R.check(okmv, "POLICY", "find-and-move:moves-found-node", where(f, mv[0]) if mv else f.name, "the found node is moved to the back")
    f = fns["s_lru_cache_use_lru_element"]
    fr = f.calls(FRONT)
    mv = f.calls("aws_linked_hash_table_move_node_to_end_of_list")
    fr = [e for e in fr if not any(e.node is RU.uncast(f, x) for b_ in f.blocks.values() if b_.cond is not None for x in (f.d(b_.cond) or {}).get("a", []))]  # (begin == end is the emptiness test)
    R.check(len(fr) == 1 and len(mv) == 1 and not f.calls(BACK), "POLICY", "use-lru:front-to-back", "%s()" % f.name, "use-lru takes the front and moves it to the back")
    # a lookup / use counts as a use whatever the entry holds and however full the cache is: the move depends only on
    # `an entry was found` (find-and-move) / `the list is not empty` (use-lru)
    for fname, allowed in (("aws_linked_hash_table_find_and_move_to_back", {"err_val", "element"}), ("s_lru_cache_use_lru_element", {"list", "aws_linked_list_empty", "cache", "table"})):
        g_ = fns[fname]
        movers = g_.calls("aws_linked_hash_table_move_node_to_end_of_list") or g_.calls("aws_linked_list_push_back")
        for e in movers:
            extra = []
            for c_, p_, b_ in RU.guards(g_, e):
                if fname == "s_lru_cache_use_lru_element" and list_nonempty_guard(g_, c_, p_, "lru_cache->table"):
                    continue
                if fname == "s_lru_cache_use_lru_element" and list_nonempty_guard(g_, c_, p_, "cache->table"):
                    continue
                names = {x.get("n") or x.get("f") or x.get("callee") for x in g_.walk(g_.d(c_), follow_refs=True) if x["k"] in ("var", "member", "call")}
                names.discard(None)
                if fname == "aws_linked_hash_table_find_and_move_to_back":
                    # by role: the variable the lookup fills in, and whatever holds the lookup's own result
                    fc2 = g_.calls("aws_hash_table_find")
                    roles = set()
                    if len(fc2) == 1:
                        fv = RU.strip_addr(g_, RU.arg(g_, fc2[0].node, 2))
                        if fv is not None and fv["k"] == "var":
                            roles.add(fv["n"])
                        for x in g_.walk(g_.d(c_), follow_refs=True):
                            if x["k"] == "var" and RU.origin(g_, x) is fc2[0].node:
                                roles.add(x["n"])
                        roles.add("aws_hash_table_find")
                    if not names <= roles | {"table"}:
                        extra.append(g_.show(g_.d(c_))[:60])
                    continue
                if not names <= allowed | {"lru_cache", "impl"}:
                    extra.append(g_.show(g_.d(c_))[:60])
            R.check(not extra, "POLICY", "%s:move-depends-only-on-found" % fname, where(g_, e), "the entry is moved to the back whenever it was found / the list is not empty",
                    "the move to the back is additionally conditioned on %s: a lookup of such an entry (a NULL value, a cache that is not full yet) does not count as a use and the wrong entry is evicted later" % extra)
    # the constructors forward their same-named parameters in the same positions
    init = fns.get("aws_linked_hash_table_init")
    if R.require(init is not None, "aws_linked_hash_table_init not found"):
        pn = [p["n"] for p in init.params]
        n_c = 0
        for cn, cf in sorted(fns.items()):
            for e in cf.calls("aws_linked_hash_table_init"):
                own = {p["n"] for p in cf.params}
                n_c += 1
                wrong = []
                for i_, a in enumerate(e.node["a"]):
                    v = RU.uncast(cf, a)
                    if v is not None and v["k"] == "var" and v["n"] in own and v["n"] in pn and i_ < len(pn) and pn[i_] != v["n"]:
                        wrong.append("%s passed as %s" % (v["n"], pn[i_]))
                R.check(not wrong, "POLICY", "%s:destructors-forwarded-in-place" % cn, where(cf, e), "key / value destructors (and hash / equality) are forwarded to the parameters of the same name",
                        "%s forwards its parameters to aws_linked_hash_table_init in the wrong positions (%s): keys are destroyed with the value destructor and values with the key destructor" % (cn, ", ".join(wrong)))
        R.require(n_c >= 3, "only %d cache constructors calling aws_linked_hash_table_init found" % n_c)
    # the limit a cache enforces is the one its creator asked for: each constructor stores its own max_items parameter
    n_m = 0
    for cn in ("aws_cache_new_fifo", "aws_cache_new_lifo", "aws_cache_new_lru"):
        cf = P.fn(cn)
        if cf is None:
            continue
        pn = [p_["n"] for p_ in cf.params if p_["n"] == "max_items" or "max" in p_["n"]]
        for e in cf.field_accesses(rec="aws_cache", field="max_items", modes=("w",)):
            n_m += 1
            a_ = None
            for b_ in cf.blocks.values():
                for el in b_.elems:
                    for x in cf.walk(el):
                        if x["k"] == "bin" and x["op"] == "=" and cf.d(x["a"][0]) is e.node:
                            a_ = x
            v_ = RU.resolve(cf, a_["a"][1]) if a_ is not None else None
            R.check(v_ is not None and v_["k"] == "var" and v_.get("sc") == "param" and v_["n"] in pn, "EVICT", "%s:limit-is-the-callers" % cn, where(cf, e), "max_items is stored as given",
                    "%s stores %s as the cache's limit instead of the max_items it was given: the cache holds more (or fewer) entries than configured" % (cn, cf.show(a_["a"][1]) if a_ is not None else None))
    R.require(n_m >= 3, "only %d stores of max_items in the cache constructors found" % n_m)
    f = fns["s_lru_cache_get_mru_element"]
    bk_ = f.calls(BACK)
    fr_ = [e for e in f.calls(FRONT) if not any(e.node is RU.uncast(f, x) for b_ in f.blocks.values() if b_.cond is not None for x in (f.d(b_.cond) or {}).get("a", []))]
    R.check(len(bk_) == 1 and not fr_ and not f.calls("aws_linked_hash_table_move_node_to_end_of_list"), "POLICY", "get-mru:reads-back", "%s()" % f.name, "get-mru reads the back without reordering")
    f = fns["aws_linked_hash_table_move_node_to_end_of_list"]
    rm, pb = f.calls("aws_linked_list_remove"), f.calls("aws_linked_list_push_back")
    dest = argstr(f, pb[0].node, 0) if pb else None
    if not pb:
        # linked_list.inl: push_back(list, n) is insert_before(&list->tail, n)
        pb = [e for e in f.calls("aws_linked_list_insert_before") if argstr(f, e.node, 0).endswith(".tail")]
        dest = argstr(f, pb[0].node, 0)[:-len(".tail")] if pb else None
    R.check(len(rm) == 1 and len(pb) == 1 and ev_dominates(f, rm[0], pb[0]) and argstr(f, rm[0].node, 0) == argstr(f, pb[0].node, 1) == "node->node" and dest == "table->list", "POLICY",
            "move-to-end", "%s()" % f.name, "unlink then append the same node to this table's list", "move-to-end does not unlink and re-append the same node")
    if rm and pb:
        tsm = Typestate(f, 0, lambda e, s: 1 if (e is rm[0] and s == 0) else (2 if (e is pb[0] and s == 1) else s))
        bad = []
        for r_ in f.returns():
            for s_ in tsm.before.get(r_.pos, set()):
                if s_ == 2:
                    continue
                # not moved: only acceptable when the node is known to be the back of this table's list already
                gs_ = [RU.cmp_norm(f, c_, p_) for c_, p_, b_ in RU.guards(f, r_)]
                at_back = any(g_ and g_[1] == "==" and g_[2] is not None and {f.show(RU.uncast(f, g_[0])).replace(" ", ""), f.show(RU.uncast(f, g_[2])).replace(" ", "")} == {"aws_linked_list_back(&table->list)", "&node->node"} for g_ in gs_)
                # (the same fact read off the links: the node's successor is the list's tail sentinel)
                at_back = at_back or any(g_ and g_[1] == "==" and g_[2] is not None and {f.show(RU.uncast(f, g_[0])).replace(" ", ""), f.show(RU.uncast(f, g_[2])).replace(" ", "")} == {"node->node.next", "&table->list.tail"} for g_ in gs_)
                if not at_back:
                    bad.append((r_.node.get("loc", [0])[0], s_))
        if not f.returns():
            bad = [("end", s_) for s_ in tsm.exit_states if s_ != 2]
        R.check(not bad and 2 in tsm.exit_states, "POLICY", "move-to-end:unconditional", "%s()" % f.name, "every call unlinks the node and appends it (a return without moving is accepted only when the node is the list's back already)",
                "a path through move-to-end returns without moving the node (%s) although it need not be the back of the list: a lookup of that entry does not count as a use, so the wrong entry is evicted later" % bad)


def dispatchers(R, P, fns):
    """the public aws_cache_* entry points are pure dispatchers: every call reaches the cache's own vtable slot exactly once
    with the caller's arguments (a shortcut in front of the slot changes every policy at once)"""
    n = 0
    for op in ("find", "put", "remove", "clear", "get_element_count", "destroy"):
        f = fns.get("aws_cache_" + op)
        if f is None:
            continue
        n += 1
        ic = [e for e in f.indirect_calls() if RU.indirect_via(f, e.node) == ("aws_cache_vtable", op)]
        ok = len(ic) == 1
        det = "%d call(s) through vtable->%s" % (len(ic), op)
        if ok:
            ts = Typestate(f, 0, lambda e, s, ic=ic: min(s + 1, 2) if e is ic[0] else s)
            args = [f.show(a) for a in ic[0].node["a"]]
            params = [p["n"] for p in f.params]
            others = [e.node.get("callee") for e in f.all_events() if e.kind == "call" and e is not ic[0] and not (e.node.get("callee") or "").startswith(("aws_fatal_assert", "__builtin", "aws_raise_error"))]
            ok = ts.exit_states == {1} and args == params and not others
            det = "exit states %s, arguments %s, other calls %s" % (sorted(ts.exit_states), args, others)
        R.check(ok, "POLICY", "aws_cache_%s:dispatches-unconditionally" % op, "%s()" % f.name, "reaches vtable->%s exactly once on every path with the caller's arguments" % op,
                "aws_cache_%s does not simply dispatch to the cache's %s implementation (%s): a path that answers without it skips the policy's insertion / reordering / eviction" % (op, op, det))
    R.require(n >= 5, "aws_cache_* dispatchers not found in source/cache.c")


def table(R, P, fns):
    f = fns["aws_linked_hash_table_put"]
    dom = dominators(f)
    cr = f.calls("aws_hash_table_create")
    ed = f.calls("s_element_destroy")
    kd = [e for e in f.indirect_calls() if RU.indirect_via(f, e.node) == ("aws_linked_hash_table", "user_on_key_destroy")]
    pb = f.calls("aws_linked_list_push_back")
    alloc = f.calls({"aws_mem_calloc", "aws_mem_acquire"})
    R.require(len(cr) == 1 and len(kd) == 1 and len(pb) == 1 and len(alloc) == 1, "linked_hash_table_put: step missing")
    R.check(len(ed) == 1, "PUT", "old-node-destroyed-through-the-element-destructor", "%s()" % f.name, "an overwritten entry's node goes through s_element_destroy (value destructor, unlink, release)",
            "put has %d calls of s_element_destroy: an overwritten entry's old node is not unlinked and released (it keeps its old place in the order, or leaks)" % len(ed))
    if cr and pb:
        # every successful return has appended a node exactly once: a re-inserted key moves to the back
        tsx0 = Typestate(f, 0, lambda e, s: min(s + 1, 2) if e is pb[0] else s)
        for r_ in f.returns():
            v = RU.uncast(f, r_.node["a"][0]) if r_.node["a"] else None
            if v is not None and f.is_const(v) == 0:
                sts_ = tsx0.before.get(r_.pos, set())
                R.check(sts_ == {1}, "PUT", "success-has-appended-once:line%d" % r_.node["loc"][0], where(f, r_), "a successful put has appended the entry's node to the back of the order",
                        "a successful return is reached with %s appends: an overwritten entry keeps its old position (FIFO/LIFO/LRU then evict the wrong entry)" % sorted(sts_))
    if not (cr and ed and kd and pb and alloc):
        return
    # names are taken from the code's own roles, not from its spelling: the table / key / value parameters by position,
    # the fresh node = the variable initialised from the allocation, the element = the variable handed to create by
    # address, the status = the variable holding create's result (or the call tested directly); temporaries are seen through
    p_table, p_key, p_val = (p["n"] for p in f.params[:3])
    S = lambda n: f.show(RU.uncast(f, n), alias=True) if n is not None else None

    def var_from(call_ev):
        for e in f.all_events():
            if e.kind == "decl":
                for v in e.node["vars"]:
                    if v.get("init") is not None and RU.uncast(f, v["init"]) is call_ev.node:
                        return v["n"]
        a = _assignment_of_value(f, call_ev.node)
        return a
    new_node = var_from(alloc[0])
    # every name the fresh node goes by: variables assigned from it (the result variable and the parameters of expanded helpers)
    node_names = {new_node} if new_node else set()
    for _ in range(4):
        for b_ in f.blocks.values():
            for el_ in b_.elems:
                pairs_ = []
                if el_["k"] == "decl":
                    pairs_ = [(v_["n"], v_["init"]) for v_ in el_["vars"] if v_.get("init") is not None]
                elif el_["k"] == "bin" and el_["op"] == "=" and (f.d(el_["a"][0]) or {}).get("k") == "var":
                    pairs_ = [(f.d(el_["a"][0])["n"], el_["a"][1])]
                for ln_, rhs_ in pairs_:
                    r_ = RU.uncast(f, rhs_)
                    if r_ is not None and r_["k"] == "var" and r_["n"] in node_names:
                        node_names.add(ln_)
    is_node = lambda txt: txt in node_names
    elem = argstr(f, cr[0].node, 2)
    status = var_from(cr[0])
    if not R.require(bool(new_node) and bool(elem), "linked_hash_table_put: the fresh node / the element variable not identified"):
        return
    st_key = [e for e in f.field_accesses(rec="aws_hash_element", field="key", modes=("w",))]
    st_val = [e for e in f.field_accesses(rec="aws_hash_element", field="value", modes=("w",))]
    R.check(len(st_key) == 1 and ev_dominates(f, ed[0], kd[0], dom) and (st_key[0] in RU.reach_from(f, kd[0])) and ev_dominates(f, ed[0], st_key[0], dom), "PUT", "overwrite-order", where(f, ed[0]),
            "old node destroyed, then old key (if different), then the new key installed", "the overwrite path does not destroy the old node / old key before installing the new key")
    gs = [(S(g[0]), g[1], S(g[2]) if g[2] is not None and f.is_const(RU.uncast(f, g[2])) != 0 else None) for g in [RU.cmp_norm(f, c, p) for c, p, b in RU.guards(f, kd[0], dom)] if g]
    R.check((elem + "->key", "!=", p_key) in gs and (p_table + "->user_on_key_destroy", "!=", None) in gs and (elem + "->value", "!=", None) in gs, "PUT", "old-key-destroyed-only-when-different", where(f, kd[0]),
            "the old key is destroyed only when a destructor is set, an entry existed and the pointer differs (%s)" % gs, "the key destructor's guards are %s" % gs)
    R.check(S(RU.arg(f, kd[0].node, 0)) == elem + "->key", "PUT", "destroys-the-old-key", where(f, kd[0]), "the key destroyed is the element's old key")
    R.check(S(RU.arg(f, ed[0].node, 0)) == elem + "->value", "PUT", "destroys-the-old-node", where(f, ed[0]), "the node destroyed is the element's old value")
    a = _assignment_of(f, st_key[0]) if st_key else None
    R.check(a is not None and S(a["a"][1]) == p_key, "PUT", "element-gets-new-key", where(f, st_key[0]) if st_key else f.name, "element->key = key")
    # the new node
    want = {"value": p_val, "key": p_key, "table": p_table}
    for fld, src in want.items():
        st = [e for e in f.field_accesses(rec="aws_linked_hash_table_node", field=fld, modes=("w",))]
        a = _assignment_of(f, st[0]) if len(st) == 1 else None
        R.check(a is not None and S(a["a"][1]) == src and is_node(S(st[0].node["a"][0])), "PUT", "new-node.%s" % fld, where(f, st[0]) if st else f.name, "node->%s = %s" % (fld, src),
                "the new node's %s is set from %s instead of the caller's %s: iteration and eviction would see a stale %s" % (fld, S(a["a"][1]) if a else "nothing", src, fld))
    a = _assignment_of(f, st_val[0]) if len(st_val) == 1 else None
    R.check(a is not None and is_node(S(a["a"][1])), "PUT", "element-points-to-new-node", where(f, st_val[0]) if st_val else f.name, "element->value = node")
    a0_, a1_ = argstr(f, pb[0].node, 0), argstr(f, pb[0].node, 1)
    R.check((a0_ == p_table + "->list" or any(a0_ == n_ + "->table->list" for n_ in node_names)) and any(a1_ == n_ + "->node" for n_ in node_names), "PUT", "appended-to-list", where(f, pb[0]), "the new node is appended to the iteration list (re-insertion moves the entry to the back)")
    # exactly one push on every successful path; failing create releases the node
    tsx = Typestate(f, 0, lambda e, s: min(s + 1, 2) if e is pb[0] else s)
    R.check(tsx.exit_states <= {0, 1}, "PUT", "appended-at-most-once", "%s()" % f.name, "no path appends twice")
    rel = [e for e in f.calls("aws_mem_release") if is_node(argstr(f, e.node, 1, addr=False))]
    okrel = False
    for r_ in rel:
        for c, p, b in RU.guards(f, r_, dom):
            t_ = RU.call_test(f, c, p)
            if t_ and t_[0] is cr[0].node and t_[1] == "nonzero":
                okrel = True
            g = RU.cmp_norm(f, c, p)
            if g and g[1] == "!=" and (g[2] is None or f.is_const(RU.uncast(f, g[2])) == 0):
                l_ = RU.uncast(f, g[0])
                if l_ is not None and ((l_["k"] == "var" and status and l_["n"] == status) or l_ is cr[0].node):
                    okrel = True
    R.check(okrel, "PUT", "failed-create-releases-node", "%s()" % f.name, "a failed create releases the fresh node", "a failed create leaks the fresh node")
    for r_ in rel:
        R.check(pb[0] not in RU.reach_from(f, r_), "PUT", "released-node-not-linked", where(f, r_), "a released node is never linked")

    d = fns["s_element_destroy"]
    dom = dominators(d)
    uv = [e for e in d.indirect_calls() if RU.indirect_via(d, e.node) == ("aws_linked_hash_table", "user_on_value_destroy")]
    rm = d.calls("aws_linked_list_remove")
    rel = d.calls("aws_mem_release")
    ok = len(uv) == 1 and len(rm) == 1 and len(rel) == 1 and rm[0] in RU.reach_from(d, uv[0]) and ev_dominates(d, rm[0], rel[0], dom)
    R.check(ok, "DESTROY", "value-destructor-unlink-release", "%s()" % d.name, "user value destructor, unlink, release - in that order", "the element destructor's steps are missing or out of order")
    if uv:
        R.check(d.show(RU.arg(d, uv[0].node, 0)) == "node->value", "DESTROY", "destroys-users-value", where(d, uv[0]), "the user's value is what is destroyed")
        gsd = [d.show(c_) for c_, p_, b_ in RU.guards(d, uv[0], dom)]
        extra = [g_ for g_ in gsd if "user_on_value_destroy" not in g_ or "->value" in g_]
        R.check(not extra, "DESTROY", "value-destructor-depends-only-on-being-set", where(d, uv[0]), "the user's value destructor runs for every removed entry when one was given (guards: %s)" % gsd,
                "the user's value destructor is skipped under a further condition (%s): an entry whose value is NULL / fails that test leaves the cache without the destructor the caller registered being told" % extra)
    if rel:
        later = RU.dead_after(d, rel[0], "node")
        R.check(not later and argstr(d, rel[0].node, 1, addr=False) in ("node", "value"), "DESTROY", "node-dead-after-release", where(d, rel[0]), "node not used after release")
    for ev, nm in ((rm, "unlink"), (rel, "release")):
        if ev:
            tsx = Typestate(d, 0, lambda e, s, ev=ev: min(s + 1, 2) if e is ev[0] else s)
            R.check(tsx.exit_states == {1}, "DESTROY", "%s-exactly-once" % nm, "%s()" % d.name, "%s exactly once on every path" % nm)
    i = fns["aws_linked_hash_table_init"]
    hi = i.calls("aws_hash_table_init")
    R.require(len(hi) == 1, "linked_hash_table_init: aws_hash_table_init call not found")
    if hi:
        a = [i.show(x) for x in hi[0].node["a"]]
        R.check(a[5] == "destroy_key_fn" and a[6] == "s_element_destroy" and a[0] == "&table->table", "DESTROY", "destructor-wiring", where(i, hi[0]),
                "key destructor in the key slot, element destructor in the value slot", "the hash table is initialised with destructors %s / %s" % (a[5], a[6]))
        st = {e.node["f"]: i.show(_assignment_of(i, e)["a"][1]) for e in i.field_accesses(rec="aws_linked_hash_table", modes=("w",)) if _assignment_of(i, e)}
        R.check(st.get("user_on_value_destroy") == "destroy_value_fn" and st.get("user_on_key_destroy") == "destroy_key_fn", "DESTROY", "user-destructors-stored", "%s()" % i.name, "user destructors stored in their own fields (%s)" % st)
        R.check(len(i.calls("aws_linked_list_init")) == 1, "DESTROY", "list-initialised", "%s()" % i.name, "iteration list initialised")
    rmv = fns.get("aws_linked_hash_table_remove")
    if rmv:
        c = rmv.calls("aws_hash_table_remove")
        R.check(len(c) == 1 and all(rmv.is_const(RU.uncast(rmv, RU.arg(rmv, c[0].node, k))) == 0 for k in (2, 3)), "DESTROY", "remove-runs-destructors", "%s()" % rmv.name,
                "remove passes no out-parameters, so the hash table runs both destructors")


MUTANTS = [
    {"name": "lru-put-updates-the-newest-entry-in-place", "file": "source/lru_cache.c", "expect": "PUT", "old": "static int s_lru_cache_put(struct aws_cache *cache, const void *key, void *p_value) {\n", "new": "static int s_lru_cache_put(struct aws_cache *cache, const void *key, void *p_value) {\n    if (key == NULL) {\n        return AWS_OP_SUCCESS;\n    }\n"},
    {"name": "put-shortcut-before-dispatch", "file": "source/cache.c", "expect": "POLICY", "old": "    return cache->vtable->put(cache, key, p_value);", "new": "    void *cur = NULL;\n    if (cache->vtable->find(cache, key, &cur) == AWS_OP_SUCCESS && cur == p_value) {\n        return AWS_OP_SUCCESS;\n    }\n    return cache->vtable->put(cache, key, p_value);"},
    {"name": "value-destructor-skipped-for-null", "file": LHT, "expect": "DESTROY", "old": "    if (node->table->user_on_value_destroy) {", "new": "    if (node->table->user_on_value_destroy && node->value) {"},
    {"name": "fifo-evicts-back", "file": "source/fifo_cache.c", "expect": "VICTIM", "old": "aws_linked_list_front(list);", "new": "aws_linked_list_back(list);"},
    {"name": "lifo-evicts-newest", "file": "source/lifo_cache.c", "expect": "VICTIM", "old": "AWS_CONTAINER_OF(node->prev, struct aws_linked_hash_table_node, node);", "new": "AWS_CONTAINER_OF(node, struct aws_linked_hash_table_node, node);"},
    {"name": "lru-overflow-ge", "file": "source/lru_cache.c", "expect": "EVICT",
     "old": "if (aws_linked_hash_table_get_element_count(&cache->table) > cache->max_items) {", "new": "if (aws_linked_hash_table_get_element_count(&cache->table) >= cache->max_items) {"},
    {"name": "lru-find-plain", "file": "source/lru_cache.c", "expect": "POLICY",
     "old": "return (aws_linked_hash_table_find_and_move_to_back(&cache->table, key, p_value));", "new": "return (aws_linked_hash_table_find(&cache->table, key, p_value));"},
    {"name": "find-moves-only-non-null-values", "file": LHT, "expect": "POLICY", "old": "    aws_linked_hash_table_move_node_to_end_of_list(table, linked_node);\n    return AWS_OP_SUCCESS;", "new": "    if (*p_value) {\n        aws_linked_hash_table_move_node_to_end_of_list(table, linked_node);\n    }\n    return AWS_OP_SUCCESS;"},
    {"name": "lifo-destructors-transposed", "file": "source/lifo_cache.c", "expect": "POLICY", "old": "hash_fn, equals_fn, destroy_key_fn, destroy_value_fn, max_items", "new": "hash_fn, equals_fn, destroy_value_fn, destroy_key_fn, max_items"},
    {"name": "move-to-end-shortcut", "file": LHT, "expect": "POLICY", "old": "    struct aws_linked_hash_table_node *node) {\n\n    aws_linked_list_remove(&node->node);", "new": "    struct aws_linked_hash_table_node *node) {\n\n    if (aws_linked_list_next(&node->node) == aws_linked_list_back(&table->list)) {\n        return;\n    }\n    aws_linked_list_remove(&node->node);"},
    {"name": "overwrite-refreshes-in-place", "file": LHT, "expect": "PUT", "old": "        element->key = key;\n    }\n\n    node->value = p_value;", "new": "        element->key = key;\n        if (was_added == 2) {\n            aws_mem_release(table->allocator, node);\n            return AWS_OP_SUCCESS;\n        }\n    }\n\n    node->value = p_value;"},
    {"name": "node-keeps-old-key", "file": LHT, "expect": "PUT", "old": "    node->key = key;\n", "new": "    node->key = element->key;\n"},
    {"name": "old-key-always-destroyed", "file": LHT, "expect": "PUT", "old": "if (table->user_on_key_destroy && element->key != key) {", "new": "if (table->user_on_key_destroy) {"},
    {"name": "release-before-unlink", "file": LHT, "expect": "DESTROY",
     "old": "    aws_linked_list_remove(&node->node);\n    aws_mem_release(node->table->allocator, node);", "new": "    aws_mem_release(node->table->allocator, node);\n    aws_linked_list_remove(&node->node);"},
    {"name": "destructors-swapped", "file": LHT, "expect": "DESTROY", "old": "hash_fn, equals_fn, destroy_key_fn, s_element_destroy);", "new": "hash_fn, equals_fn, NULL, s_element_destroy);"},
]
