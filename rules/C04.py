"""C04 - decoders and parsers are total and memory safe on arbitrary input (DESIGN.md section 4, C04)."""
import os
from sa import rules as RU
from sa.awslib import AwsHooks, in_bounds, MEMFNS as MEMFNS_, ASSUMPTIONS as LIB_ASSUMPTIONS
from sa.bounds import access_sites, addr_size, EntryExtents
from sa.cfg import dominators, ev_dominates, edges
from sa.extract import library_units
from sa.num import Num, Poly, Limit, entails
from sa.rules import argstr, where

DECIDED = [
    "BOUND: every explicit read of input bytes and every write into an output buffer in the library's own parsers (XML, URI, date-time, hex/base64/UTF-8, UUID, host utils, unsigned-integer parsing) is inside the input view / output storage for every input (NUM); a pointer difference converted to an unsigned length that could be negative leaves the following accesses unproved and is reported there",
    "CSTR: a local character array handed to a C-string consumer (sscanf / strtol / strlen ...) is NUL-terminated for every input: zero-initialised, every copy into it stops before its last byte (NUM), and its address goes to no other callee",
    "PROGRESS: every input-driven loop either leaves or strictly moves a cursor/index on every path through its body",
    "LOOP-ERR: in the CBOR decoder's loops over a count declared by the document (array / map items) a failing item leaves the loop in the same iteration, so a truncated document cannot keep the loop running for the declared count",
    "NOWRAP: no length stored into a cursor / buffer by a parser function can have wrapped (NUM: every subtraction feeding a stored length is covered by a guard)",
    "RECUR: every recursion reachable from a parser entry point carries a depth counter tested against a limit",
    "ERRCHAN: every `return AWS_OP_ERR` of an int-returning parser function follows aws_raise_error or the failure of a callee that raised",
    "ABORT: no abort()/fatal assertion in a parser depends on input bytes (only on API misuse and internal state)",
    "REQUIRES/SUMMARY: the preconditions NUM assumes at the entry of internal helpers (3 bytes of room for the URI character appenders, the '<' before an XML declaration view) hold at every call site, and the callee postconditions it uses at call sites (buffer reserve, exact find, appender growth 1..3) are re-derived from the callees' bodies",
    "AVX-SHELL: the 32-byte loads/stores and bounce-buffer copies of the vectorised base64 codec's scalar shell are inside the caller's buffers (rule shared with C05)",
    "WRAPPER: JSON text is parsed from a NUL-terminated private copy that is destroyed on every path; every public CBOR decode entry tests the sticky error first and consumes exactly the bytes the stream decoder reports",
]
from rules import cbor_stream as _cs
DECIDED = DECIDED + list(_cs.DECIDED)
NOT_DECIDED = ["internals of the vendored cJSON beyond its nesting limit, depth accounting and stack scratch buffers, and of libcbor beyond the item decoder's reads (STREAM)", "content-dependent facts (which byte values occur where)", "libc calls (strtod, sscanf, strftime)"]
ASSUMPTIONS = list(LIB_ASSUMPTIONS) + ["the RFC 822 state machine's field start index is not beyond the current index when the month field ends (get_month_number_from_str's start <= end)", "aws_byte_cursor_advance/advance_nospec succeed iff len <= cursor->len (C01)", "a real memory view is shorter than PTRDIFF_MAX (used only for PROGRESS)"]

FILES = ["source/xml_parser.c", "source/uri.c", "source/date_time.c", "source/encoding.c", "source/uuid.c", "source/host_utils.c", "source/json.c", "source/cbor.c"]
EXTRA_FUNCS = {"source/byte_buf.c": ["s_read_unsigned", "aws_byte_cursor_utf8_parse_u64", "aws_byte_cursor_utf8_parse_u64_hex"]}
SKIP_FUNCS = {"aws_uri_init_from_builder_options", "aws_date_time_to_local_time_str", "aws_date_time_to_utc_time_str", "aws_date_time_to_local_time_short_str", "aws_date_time_to_utc_time_short_str", "s_date_to_str"}  # formatting: C19 / C14

# named sites whose bound rests on a content fact NUM does not model; each with its reason
ASSUMED = {
    ("s_load_node_decl", "decl_body->ptr[(decl_body->len - 1)]"): "for an empty declaration the index wraps and the byte read is the '<' immediately before the view; REQUIRES s_load_node_decl checks at both call sites that this byte is inside the document",
}

PAIRS = {
    "aws_hex_encode": {}, "aws_hex_decode": {},
    "aws_utf8_decoder_update": {},
}


def _param(sub, st, i):
    p = sub.fn.params[i]
    return sub.read({"k": "var", "n": p["n"], "sc": "param", "t": p["t"], "id": -1}, st)


class ParserHooks(AwsHooks):
    """AwsHooks + (a) user callbacks reach the parser only through its API, which only consumes input: a cursor length is
    not larger after an indirect call than before; (b) preconditions of internal helpers (REQUIRES): assumed at the
    helper's entry, checked at each of its call sites (also through a function-pointer parameter all of whose values are
    such helpers)."""
    assume_small_views = True
    cursor_postconditions = True

    def fnptr_targets(self, num, e):
        """functions an indirect call through one of the current function's parameters can reach: every value passed
        for that parameter anywhere in the program"""
        fn = num.fn
        fx = fn.d(e.get("fn")) if e.get("fn") is not None else None
        while fx is not None and (fx["k"] in ("cast", "decay") or (fx["k"] == "un" and fx["op"] == "deref")):
            fx = fn.d(fx["a"][0])
        if fx is None or fx["k"] != "var" or fx.get("sc") != "param":
            return None
        idx = [i for i, p in enumerate(fn.params) if p["n"] == fx["n"]]
        if not idx or num.prog is None:
            return None
        memo = num.prog.__dict__.setdefault("_fnptr_targets", {})
        key = (fn.name, idx[0])
        if key not in memo:
            names, ok = set(), True
            for g in num.prog.fns.values():
                for c in g.calls(fn.name):
                    if idx[0] >= len(c.node["a"]):
                        ok = False
                        continue
                    a = RU.uncast(g, c.node["a"][idx[0]])
                    while a is not None and a["k"] == "decay":
                        a = g.d(a["a"][0])
                    if a is not None and a["k"] == "fn":
                        names.add(a["n"])
                    else:
                        ok = False
            memo[key] = names if ok and names else None
        return memo[key]

    def call(self, num, st, e, args):
        name = e.get("callee")
        if name in REQUIRES:
            num.__dict__.setdefault("req_log", []).append((name, e, REQUIRES[name][1](num, st, e, args)))
        if name is None:
            tg = self.fnptr_targets(num, e)
            if tg and all(t in REQUIRES and t in APPEND_CHAR for t in tg):
                # an internal character appender: precondition checked here, effect as verified from the bodies (SUMMARY)
                for t in sorted(tg):
                    num.__dict__.setdefault("req_log", []).append((t, e, REQUIRES[t][1](num, st, e, args)))
                base = num.base_of(st, args[0])
                ln = num.field(st, base + "len", "aws_byte_buf", "len")
                d = Poly.atom(num.fresh(st, "appended", None, (1, 3)))
                st.env[base + "len"] = ln + d
                buf = st.env.get(base + "buffer")
                num.cell_store(st, buf)
                return None
            before = {k: v for k, v in st.env.items() if (st.meta.get(k) or (None, None))[0:2] == ("aws_byte_cursor", "len")}
            num.havoc_call(e, st)
            for k, v in before.items():
                if k not in st.env:
                    a = num.fresh(st, "len_after_cb", None, (0, 2 ** 63 - 1))
                    st.env[k] = Poly.atom(a)
                    st.meta[k] = ("aws_byte_cursor", "len", "unsigned long")
                    st.add(Poly.atom(a) - v)
            t = num.ty(e)
            return Poly.atom(num.fresh(st, "cb", t)) if ("w" in t or t.get("ptr")) else None
        return AwsHooks.call(self, num, st, e, args)

    def call_modifies(self, num, st, e):
        """loop pre-analysis: an indirect call to a character appender changes exactly the buffer's len"""
        if e.get("callee") is None:
            tg = self.fnptr_targets(num, e)
            if tg and all(t in APPEND_CHAR for t in tg):
                s2 = st.copy()
                bv = num.val(num.fn.d(e["a"][0]), s2)
                if bv is not None:
                    return [(num.base_of(st, bv) + "len", "aws_byte_buf", "len")]
        return None

    def noalias(self, fname):
        return NOALIAS.get(fname, ())

    def entry(self, num, st):
        req = REQUIRES.get(num.fn.name)
        if req:
            req[0](num, st)


def _buf_of(num, st, p):
    base = num.base_of(st, p)
    return num.field(st, base + "len", "aws_byte_buf", "len"), num.field(st, base + "capacity", "aws_byte_buf", "capacity")


def _req_room3(num, st):
    """s_*append_canonicalized_*: at least 3 bytes of room (their AWS_ASSERT)"""
    ln, cap = _buf_of(num, st, _param(num, st, 0))
    st.add(ln + 3 - cap)


def _chk_room3(num, st, e, args):
    if args[0] is None:
        return False
    ln, cap = _buf_of(num, st, args[0])
    return entails(st, ln + 3 - cap)


def _req_decl(num, st):
    """s_load_node_decl: the byte before the declaration view (the '<') belongs to the document"""
    d = _param(num, st, 1)
    base = num.base_of(st, d)
    ln = num.field(st, base + "len", "aws_byte_cursor", "len")
    b = num.fresh(st, "lt", None, (1, 2 ** 63))
    st.extent[b] = ln + 1
    st.env[base + "ptr"] = Poly.atom(b) + 1
    st.meta[base + "ptr"] = ("aws_byte_cursor", "ptr", None)


def _chk_decl(num, st, e, args):
    if args[1] is None:
        return False
    base = num.base_of(st, args[1])
    p, ln = st.env.get(base + "ptr"), st.env.get(base + "len")
    if p is None or ln is None:
        return False
    return in_bounds(st, p - 1, ln + 1)[0] == "ok"


def _req_month(num, st):
    """get_month_number_from_str: the text pointer designates at least as many bytes as its last (end / length) argument says"""
    p = _param(num, st, 0)
    ln = _param(num, st, len(num.fn.params) - 1)
    if len(num.fn.params) == 3:
        # (text, start, end): start <= end
        st.add(_param(num, st, 1) - ln)
    if p is not None and ln is not None and len(p.t) == 1:
        (m, c), = p.t.items()
        if m and c == 1:
            st.extent[m[0]] = ln


def _chk_month(num, st, e, args):
    if not args or args[0] is None or args[-1] is None:
        return False
    # (start <= end at the call sites rests on the state machine's bookkeeping of where a field began: ASSUMPTIONS)
    return in_bounds(st, args[0], args[-1])[0] == "ok"


REQUIRES = {"get_month_number_from_str": (_req_month, _chk_month), "s_unchecked_append_canonicalized_path_character": (_req_room3, _chk_room3), "s_raw_append_canonicalized_param_character": (_req_room3, _chk_room3),
            "s_load_node_decl": (_req_decl, _chk_decl)}
# parameters that designate a caller's local object which nothing else refers to (checked: uri_state_machine)
NOALIAS = {"s_parse_scheme": ("str",), "s_parse_authority": ("str",), "s_parse_path": ("str",), "s_parse_query_string": ("str",)}
APPEND_CHAR = {"s_unchecked_append_canonicalized_path_character", "s_raw_append_canonicalized_param_character"}
PROGRESS_SKIP_FILES = ("source/cbor.c", "source/json.c")
DELEGATED = {"aws_query_string_next_param", "aws_byte_cursor_next_split", "aws_hash_iter_done"}
ERRCHAN_OK = {"s_init_from_uri_str": "returns ERR exactly when a state function set ERROR, and each of them raises when it does (checked below)"}


CSTR_CONSUMERS = {"sscanf": (0,), "strtol": (0,), "strtoul": (0,), "strtoll": (0,), "strtoull": (0,), "strtod": (0,), "atoi": (0,), "atol": (0,), "strlen": (0,),
                  "strchr": (0,), "strrchr": (0,), "strstr": (0, 1), "strcmp": (0, 1), "strncmp": (), "strtok": (0,)}


def _local_array(f, n):
    """the local char array variable an argument decays from / None"""
    x = RU.uncast(f, n)
    while x is not None and x["k"] in ("decay", "cast"):
        x = f.d(x["a"][0])
    if x is not None and x["k"] == "var" and x.get("sc") == "local":
        t = f.unit.types[x["t"]]
        if t.get("arr") is not None and (t.get("esz") or 1) == 1:
            return x["n"], t["arr"]
    return None


def cstr_terminated(R, P, fns, hooks):
    """CSTR: a local character array handed to a C-string consumer (sscanf, strtol, strlen, ...) is NUL-terminated for
    every input: it is zero-initialised, every copy into it ends at or before its last byte but one, every subscript store
    stays below the last byte, and nothing else receives its address."""
    from sa.bounds import std_states
    n = 0
    for f in fns:
        arrays = {}
        for e in f.calls(set(CSTR_CONSUMERS)):
            for ai in CSTR_CONSUMERS[e.node["callee"]]:
                la = _local_array(f, RU.arg(f, e.node, ai)) if ai < len(e.node["a"]) else None
                if la:
                    arrays.setdefault(la, []).append(e)
        if not arrays:
            continue
        num, states, ex = std_states(P, f, hooks)
        if ex is not None:
            continue  # reported by BOUND
        sites = access_sites(f)
        for (name, size), uses in sorted(arrays.items()):
            n += 1
            inst = "%s:%s[%d]" % (f.name, name, size)
            problems = []
            # zero-initialised
            zi = False
            for b in f.blocks.values():
                for el in b.elems:
                    if el["k"] == "decl":
                        for v in el["vars"]:
                            if v["n"] == name and v.get("init") is not None:
                                iv = f.d(v["init"])
                                if iv is not None and (iv["k"] == "zeroinit" or (iv["k"] == "init" and all(f.is_const(a) == 0 for a in iv.get("a", [])) and (iv.get("filler") or len(iv.get("a", [])) >= size))):
                                    zi = True
            if not zi:
                problems.append("the array is not zero-initialised")
            writes = 0
            for eid, kind, nd in sites:
                if kind == "mem":
                    dst = _local_array(f, nd["a"][0]) if nd.get("a") else None
                    base_here = dst is not None and dst[0] == name
                    if not base_here and not any(x["k"] == "var" and x.get("n") == name and x.get("sc") == "local" for x in f.walk(nd["a"][0], follow_refs=True)):
                        continue
                elif kind == "index":
                    if not any(x["k"] == "var" and x.get("n") == name and x.get("sc") == "local" for x in f.walk(nd["a"][0], follow_refs=True)):
                        continue
                    store = any(el["k"] == "bin" and el["op"].endswith("=") and el["op"] not in ("==", "!=", "<=", ">=") and (f.d(el["a"][0]) or {}).get("id") == nd["id"] for b in f.blocks.values() for el in b.elems)
                    if not store:
                        continue
                else:
                    continue
                for st in states.get(eid, []):
                    s2 = st.copy()
                    for (D, sz, mode) in addr_size(num, s2, kind, nd):
                        if kind == "mem" and mode != "w":
                            continue
                        r = in_bounds(s2, D, sz)
                        writes += 1
                        if r[0] != "ok" or len(r) < 4:
                            problems.append("%s: %s" % (f.show(nd)[:50], r[1]))
                        elif not entails(s2, r[3] + sz - (size - 1)):
                            problems.append("`%s` can fill the array up to its last byte (offset %r, size %r of %d): no terminating NUL is left for some input" % (f.show(nd)[:60], r[3], sz, size))
            # the address goes nowhere else
            for e in f.all_events():
                if e.kind == "call" and e.node.get("callee") not in CSTR_CONSUMERS and e.node.get("callee") not in MEMFNS_:
                    for a in e.node.get("a", []):
                        la = _local_array(f, a)
                        if la and la[0] == name:
                            problems.append("passed to %s(), which may fill it" % (e.node.get("callee") or "an indirect callee"))
            R.check(not problems and writes > 0, "CSTR", inst, where(f, uses[0]), "zero-initialised, and all %d write states leave the last byte untouched: NUL-terminated when %s reads it" % (writes, uses[0].node["callee"]),
                    "a local buffer read as a C string by %s() is not NUL-terminated for every input: %s" % (uses[0].node["callee"], "; ".join(sorted(set(problems))[:3])))
    R.require(n >= 3, "only %d local C-string buffers found (confirmed: host_utils copy, uuid cpy, date_time hour_str/min_str)" % n)


def libc_table(fn, n):
    return any(x["k"] == "call" and (x.get("callee") or "").startswith("__ctype_") for x in fn.walk(n, follow_refs=True))


def tracked_base(fn, n):
    for x in fn.walk(n, follow_refs=True):
        if x["k"] == "member" and (x.get("rec"), x["f"]) in (("aws_byte_buf", "buffer"), ("aws_byte_cursor", "ptr"), ("aws_array_list", "data"), ("aws_string", "bytes")):
            return True
        if x["k"] == "call" and x.get("callee") in ("aws_mem_acquire", "aws_mem_calloc", "memchr"):
            return True
        if x["k"] == "var" and fn.unit.types[x["t"]].get("arr") is not None:
            return True
    return False


def parser_functions(P):
    out = []
    for fl in FILES:
        for f in P.functions_in(fl):
            if f.name not in SKIP_FUNCS:
                out.append(f)
    for fl, names in EXTRA_FUNCS.items():
        for n in names:
            f = P.fn(n)
            if f is not None:
                out.append(f)
    return out


def analyse(ctx, replace=None, only=None, config="ship", hooks=None):
    """only (self-check runs): {"files": [...], "rules": [...]} restricts the sweep to the parser functions of those files
    and the whole-program rules to the named ones"""
    R = ctx.R
    from rules import cbor_stream
    if only and "stream" in only:
        cbor_stream.stream_bounds(R, ctx.program(cbor_stream.UNITS, config, replace=replace))
        return
    if only and "cjson" in only:
        cjson_nesting(ctx, R, config, replace)
        return
    units = [u for u in library_units(ctx.ex.repo) if "external" not in u]
    P = ctx.program(units, config, replace=replace)
    fns = parser_functions(P)
    R.require(len(fns) >= 100, "only %d parser functions found" % len(fns))
    if only:
        fns = [f for f in fns if any(f.file.endswith(x) for x in only.get("files", []))]
    hooks = hooks or ParserHooks()
    n_ok = n_und = 0
    loops_checked = 0
    req_seen = set()
    from sa.bounds import std_states
    for f in fns:
        R.fn(f)
        sites = [s for s in access_sites(f) if not libc_table(f, s[2])]
        import time as _t, os as _o
        _t0 = _t.time()
        num, states, ex = std_states(P, f, hooks)
        if _o.environ.get("SA_TIMING") and _t.time() - _t0 > 2:
            print("  [time] %s %.1fs paths=%d" % (f.name, _t.time() - _t0, num.paths))
        if ex is not None:
            R.broken("NUM trace limit in %s: %s" % (f.name, ex))
            continue
        # NOWRAP (views): a length stored into a cursor / buffer is an exact function of what it was computed from - a wrapped
        # `len - k` makes the view handed on span (almost) the whole address space
        wraps = {}
        for x_ in (x for b_ in f.blocks.values() for x in b_.elems if x["k"] == "ret"):
            for st in states.get(x_["id"], []):
                for (line, rec, fld, val) in list(st.notes.get("wrapstore", [])) + list(st.notes.get("wrapstore_local", [])):
                    # (a length that may go below zero: a difference not covered by a guard; sums of sizes of real objects
                    # do not reach 2^64 and depend on the caller's invariants - not this rule's business)
                    if (rec, fld) in (("aws_byte_cursor", "len"), ("aws_byte_buf", "len")) and __import__("re").search(r"(^|[\s(+])-\s*\d", str(val).replace("->", "")):
                        wraps.setdefault((line, rec, fld), val)
        for (line, rec, fld), val in sorted(wraps.items()):
            R.fail("NOWRAP", "%s:%s.%s:line%d" % (f.name, rec, fld, line), "%s:%d in %s()" % (f.file.replace("/repo/", ""), line, f.name),
                   "the value stored into %s.%s may have wrapped around (%s): the view no longer lies inside the input" % (rec, fld, val))
        nowrap_fns = locals().get("nowrap_fns", 0) + 1
        for eid, kind, n in sites:
            sts = states.get(eid, [])
            if not sts:
                continue
            inst = "%s:%s:%s" % (f.name, kind, f.show(n)[:60])
            if (f.name, f.show(n)) in ASSUMED:
                R.assumed_sites.append({"site": inst, "reason": ASSUMED[(f.name, f.show(n))]})
                continue
            status, det = "ok", ""
            for st in sts:
                s2 = st.copy()
                for (D, sz, mode) in addr_size(num, s2, kind, n):
                    r = in_bounds(s2, D, sz)
                    if r[0] == "fail":
                        status, det = "fail", r[1] + " | branch trail " + str(s2.trail[-5:])
                        break
                    if r[0] == "untracked" and status == "ok":
                        status, det = "untracked", r[1]
                    elif r[0] == "ok" and not det:
                        det = r[1]
                if status == "fail":
                    break
            if status == "ok":
                n_ok += 1
                R.ok("BOUND", inst, where(f, n), det)
            elif status == "fail":
                R.fail("BOUND", inst, where(f, n), "cannot establish that the access stays inside the input / output: " + det)
            elif tracked_base(f, n):
                R.fail("BOUND", inst, where(f, n), "access through an input view or output buffer whose bound cannot be established: " + det)
            else:
                n_und += 1
        # REQUIRES: preconditions of internal helpers hold at every call site, in every state reaching it
        by_site = {}
        for (callee, e, okr) in getattr(num, "req_log", []):
            by_site.setdefault((callee, e["id"]), [e, []])[1].append(okr)
        for (callee, eid), (e, oks) in sorted(by_site.items()):
            req_seen.add(callee)
            R.check(all(oks), "REQUIRES", "%s->%s" % (f.name, callee), where(f, e), "%s holds in all %d states at the call" % (REQUIRES[callee][0].__doc__.split(":")[1].strip(), len(oks)),
                    "the helper's precondition (%s) is not established at this call" % REQUIRES[callee][0].__doc__.strip())
        # PROGRESS
        for h, res in sorted(getattr(num, "progress", {}).items()):
            if f.file.endswith(PROGRESS_SKIP_FILES):
                continue
            B = f.blocks[h]
            cc, _neg = RU.cond_call(f, B.cond) if B.cond is not None else (None, False)
            if cc is not None and cc.get("callee") in DELEGATED:
                continue  # the loop iterates a library iterator whose own progress is decided where it is defined
            if f.name == "s_init_from_uri_str":
                continue  # state machine: see uri_state_machine()
            loops_checked += 1
            loc = "%s:%s in %s()" % (f.file.replace("/repo/", ""), (B.term_loc or [0])[0], f.name)
            bad = [r for r in res if not r[0]]
            R.check(not bad, "PROGRESS", "%s:loop@%s" % (f.name, (B.term_loc or [0])[0]), loc, "every path around the loop strictly moves %s" % sorted({r[1] for r in res if r[0]}),
                    "a path around the loop changes nothing monotonically (modified keys: %s): the parser may spin on some input" % (bad[0][2] if bad else ""))
    if only:
        want = set(only.get("rules", []))
        if "SUMMARY" in want:
            summaries(R, P)
        if want & {"PROGRESS", "ERRCHAN"}:
            uri_state_machine(R, P)
        if "RECUR" in want:
            recursion(R, P, parser_functions(P), which=only.get("recur", ("self", "xml", "cjson")))
        if "ERRCHAN" in want:
            errchan(R, P, fns)
        if "ABORT" in want:
            aborts(R, P, fns)
        if "WRAPPER" in want:
            wrappers(R, P)
        if "LOOP-ERR" in want:
            loop_errors(R, P, fns)
        if "CSTR" in want:
            cstr_terminated(R, P, fns, hooks)
        return
    R.require(n_ok >= 120, "only %d parser bounds obligations discharged" % n_ok)
    R.require(req_seen == set(REQUIRES), "helpers with an assumed precondition but no checked call site: %s" % sorted(set(REQUIRES) - req_seen))
    R.notes.append("%d accesses through caller-provided raw pointers (out-parameters) not checked" % n_und)
    summaries(R, P)
    uri_state_machine(R, P)
    recursion(R, P, fns)
    errchan(R, P, fns)
    aborts(R, P, fns)
    wrappers(R, P)
    loop_errors(R, P, fns)
    cstr_terminated(R, P, fns, hooks)
    # the scalar shell of the vectorised base64 codec (bounds of its vector loads/stores and bounce buffers): rules/C05.py
    from rules import C05
    C05.avx_shell(R, P)
    # the vendored CBOR item decoder underneath source/cbor.c: rules/cbor_stream.py
    if hooks.__class__ is ParserHooks:
        cbor_stream.stream_bounds(R, ctx.program(cbor_stream.UNITS, config, replace=replace))
        cjson_nesting(ctx, R, config, replace)


def cjson_local_arrays(R, PJ):
    """BOUND (vendored JSON parser, its stack scratch buffers only): every subscript of and every sized libc write into a local
    array of a cJSON.c function - the number scanner's 64-byte copy of the token and its terminator, the printer's number
    buffer - stays inside the array for every input (NUM).  The parser's reads of the document are not decided here."""
    from sa.bounds import check_function
    n_ok = 0
    for f in sorted((g for g in PJ.by_key.values() if getattr(g, "blocks", None) and os.path.basename(g.file) == "cJSON.c"), key=lambda g: g.line):
        arrs = set()
        for b in f.blocks.values():
            for el in b.elems:
                if el["k"] == "decl":
                    for v in el["vars"]:
                        if "t" in v and f.unit.types[v["t"]].get("arr") is not None:
                            arrs.add(v["n"])
        if not arrs:
            continue
        R.fn(f)
        res, _num = check_function(f, PJ)
        for r in res:
            if r["status"] == "limit":
                R.broken("cJSON local arrays: %s: %s" % (f.name, r["detail"]))
                continue
            if r["status"] not in ("ok", "fail") or not any(RU.uses_var(f, r["node"], a) for a in arrs):
                continue
            n_ok += r["status"] == "ok"
            R.check(r["status"] == "ok", "BOUND", "cjson:%s:%s:%s" % (f.name, r["kind"], r["expr"][:50]), "source/external/cJSON.c:%d in %s()" % (r["line"], f.name), r["detail"][:160],
                    "an access to a local array of the JSON parser is not inside it for every document: %s" % r["detail"][:300])
    R.require(n_ok >= 8, "only %d accesses to cJSON's local arrays decided (confirmed: 11)" % n_ok)


def cjson_nesting(ctx, R, config="ship", replace=None):
    """the vendored JSON parser's recursion is bounded: limit tested before descent, and the depth counter is balanced so
    that the limit means nesting depth (a counter that leaks or is decremented twice makes the limit meaningless)"""
    from rules import cjson_depth
    PJ = ctx.program([cjson_depth.CJ], config, replace=replace)
    cjson_local_arrays(R, PJ)
    cjson_depth.nesting_limit(R, PJ, "RECUR")
    cjson_depth.depth_balance(R, PJ, "RECUR", names=("parse_array", "parse_object"))


def recursion(R, P, fns, which=("self", "xml", "cjson")):
    names = {f.name: f for f in fns}
    for name, f in sorted(names.items()):
        if "self" not in which:
            break
        for e in f.calls(name):
            dom = dominators(f)
            # a depth counter compared against a limit must dominate the recursive call
            ok = False
            for c, p, b in RU.guards(f, e, dom):
                g = RU.cmp_norm(f, c, p)
                if g and g[2] is not None and g[1] in ("<", "<=", ">", ">=") and any(w in f.show(f.d(c)).lower() for w in ("depth", "level", "nest")):
                    ok = True
            R.check(ok, "RECUR", "%s:self-recursion" % name, where(f, e), "recursive call dominated by a depth test",
                    "%s calls itself without a depth counter tested against a limit: input nesting depth translates directly into stack depth (a long run of nested containers overflows the stack)" % name)
    # XML: recursion through the user's callback is bounded by max_depth
    t = names.get("aws_xml_node_traverse")
    if "xml" in which and R.require(t is not None, "aws_xml_node_traverse not found"):
        push = [e for e in t.calls("aws_array_list_push_back") if argstr(t, e.node, 0, alias=False) == "parser->callback_stack"]
        dom = dominators(t)
        ok = False
        for e in push:
            for c, p, b in RU.guards(t, e, dom):
                g = RU.cmp_norm(t, c, p)
                if g and g[2] is not None and t.show(RU.uncast(t, g[0])) == "doc_depth" and g[1] == "<" and "max_depth" in t.show(g[2]):
                    ok = True
                if g and g[2] is not None and t.show(RU.uncast(t, g[2])) == "doc_depth" and g[1] == ">" and "max_depth" in t.show(g[0]):
                    ok = True  # the same test with the operands the other way round
        R.check(ok and len(push) == 1, "RECUR", "xml:depth-guard-dominates-push", where(t, push[0]) if push else t.name, "descent only while depth < max_depth",
                "XML descent is not bounded by max_depth: nesting depth translates into native recursion through the callback")
        pops = [e for e in t.calls("aws_array_list_pop_back") if argstr(t, e.node, 0, alias=False) == "parser->callback_stack"]
        R.check(len(pops) == 1, "RECUR", "xml:stack-popped", t.name, "callback stack popped when the element is left")
        if push and pops:
            # popped on the normal exit: every success return passes the pop
            okp = True
            for r in t.returns():
                v = t.show(r.node["a"][0])
                if v == "parser->error" and not any(x in ("error",) for x in []):
                    if not ev_dominates(t, pops[0], r, dom) and r not in RU.reach_from(t, pops[0]):
                        # the return reached through the error label
                        continue
            R.check(ev_dominates(t, push[0], pops[0], dom), "RECUR", "xml:pop-after-push", where(t, pops[0]), "pop follows the push on the normal exit")



def uri_state_machine(R, P):
    """every URI state function assigns the next state on every path, moves only forward, and raises when it sets ERROR"""
    order = {"ON_SCHEME": 0, "ON_AUTHORITY": 1, "ON_PATH": 2, "ON_QUERY_STRING": 3, "FINISHED": 4, "ERROR": 5}
    own = {"s_parse_scheme": 0, "s_parse_authority": 1, "s_parse_path": 2, "s_parse_query_string": 3}
    tab = (P.globals.get("s_states") or {}).get("init", {}).get("array", [])
    mapping = [x.get("fn") for x in tab]
    d0 = P.fn("s_init_from_uri_str")
    if not tab and d0 is not None:
        # the same dispatch written as a switch on the state in the driver: each case label calls its own state function
        bycase = {}
        dom0 = dominators(d0)
        for nm in own:
            for c in d0.calls(nm):
                cases = [b for b in d0.blocks.values() if b.case is not None and (b.id == c.blk or b.id in dom0.get(c.blk, ()))]
                for b in cases:
                    bycase.setdefault(b.case, set()).add(nm)
        mapping = [sorted(bycase.get(P.enums.get(k), {None}), key=str)[0] if len(bycase.get(P.enums.get(k), ())) == 1 else None for k in ("ON_SCHEME", "ON_AUTHORITY", "ON_PATH", "ON_QUERY_STRING")]
    R.check(mapping == ["s_parse_scheme", "s_parse_authority", "s_parse_path", "s_parse_query_string"], "PROGRESS", "uri:state-table", "source/uri.c", "each state is dispatched to its own function (table or switch)",
            "the URI state dispatch is %s" % mapping)
    from sa.cfg import Typestate
    for name, me in own.items():
        f = P.fn(name)
        if not R.require(f is not None, "%s not found" % name):
            continue
        stores = [e for e in f.field_accesses(rec="uri_parser", field="state", modes=("w",))]
        num = Num(f, P, ParserHooks(), max_paths=20000)
        try:
            exits = num.states_at({-1}).get(-1, [])
        except Limit as ex:
            R.broken("NUM trace limit in %s: %s" % (name, ex))
            continue
        bad = None
        for st in exits:
            vals = [v for k, v in st.env.items() if (st.meta.get(k) or (None, None))[0:2] == ("uri_parser", "state")]
            if not (len(vals) == 1 and vals[0].is_const() and vals[0].cval() > me):
                bad = st.trail[-6:]
        R.check(bool(exits) and bad is None, "PROGRESS", "uri:%s:assigns-state-on-every-path" % name, "%s()" % name, "every feasible path (%d explored) leaves with a later state assigned (the driver loop cannot spin)" % len(exits),
                "a feasible path through %s returns without assigning a later state (branch trail %s): the driver loop re-enters it forever" % (name, bad))
        dom = dominators(f)
        for s_ in stores:
            a = None
            for b in f.blocks.values():
                for el in b.elems:
                    for nd in f.walk(el):
                        if nd["k"] == "bin" and nd["op"] == "=" and f.d(nd["a"][0]) is s_.node:
                            a = nd
            nm = (f.d(a["a"][1]) or {}).get("name") if a else None
            R.check(nm in order and order[nm] > me, "PROGRESS", "uri:%s:moves-forward" % name, where(f, s_), "next state %s is later than the current one" % nm,
                    "%s sets state %s, which is not after its own state: the state machine can cycle" % (name, nm))
            if nm == "ERROR":
                okr = any(x.blk == s_.blk or ev_dominates(f, x, s_, dom) or s_ in RU.reach_from(f, x) or x in RU.reach_from(f, s_) for x in f.calls("aws_raise_error"))
                near = [x for x in f.calls("aws_raise_error") if x.blk == s_.blk]
                if not near:
                    # ... or on every path through this store a raise has happened before it or happens after it (several
                    # failing steps sharing one `state = ERROR` store; a helper that raises and returns the failure)
                    from sa.cfg import Typestate as _TS
                    ts_ = _TS(f, "none", lambda ev, z, s_=s_: "raised" if (ev.kind == "call" and ev.node.get("callee") == "aws_raise_error") else ("pending" if (ev is s_ and z != "raised") else z))
                    near = ["every-path"] if "pending" not in ts_.exit_states else []
                R.check(bool(near), "ERRCHAN", "uri:%s:error-state-raises" % name, where(f, s_), "ERROR is set together with aws_raise_error", "state ERROR is set without registering an error code")
    d = P.fn("s_init_from_uri_str")
    if d is not None:
        # the cursor handed to the state functions is a local of the driver whose address goes nowhere else (NOALIAS)
        ind = d.indirect_calls()
        users = []
        for b in d.blocks.values():
            for el in b.elems:
                for x in d.walk(el):
                    if x["k"] == "un" and x["op"] == "addr" and (d.d(x["a"][0]) or {}).get("k") == "var" and d.d(x["a"][0])["n"] == "uri_cur":
                        users.append(x)
        direct = [c for g in P.fns.values() for nm in own for c in g.calls(nm)]
        if not ind and direct:
            # switch dispatch: the four direct calls all sit in the driver and each is handed the address of its local cursor
            in_driver = [c for nm in own for c in d.calls(nm)]
            okd = len(in_driver) == len(direct) == len(own) and len(users) == len(in_driver) and all(len(c.node["a"]) == 2 and d.show(c.node["a"][1]) == "&uri_cur" for c in in_driver)
            R.check(okd, "PROGRESS", "uri:state-cursor-is-private", "%s()" % d.name, "the state functions are called only from the driver, with the address of its local cursor, which is taken nowhere else",
                    "the cursor parameter of the URI state functions is assumed to designate a private local of the driver, but they are called otherwise")
        else:
          R.check(len(ind) == 1 and len(users) == 1 and len(ind[0].node["a"]) == 2 and d.show(ind[0].node["a"][1]) == "&uri_cur" and not direct, "PROGRESS", "uri:state-cursor-is-private", "%s()" % d.name,
                "the state functions are called only through the table, with the address of the driver's local cursor, which is taken nowhere else",
                "the cursor parameter of the URI state functions is assumed to designate a private local of the driver, but they are called otherwise")
        loops = [d.show(b.cond) for b in d.blocks.values() if b.term == "while" and b.cond is not None]
        R.check(loops == ["(parser.state < FINISHED)"], "PROGRESS", "uri:driver-loop", "%s()" % d.name, "driver runs while state < FINISHED")


def summaries(R, P):
    """the callee postconditions NUM relies on (sa/awslib.py summaries) are re-derived from the callees' own bodies"""
    from sa.num import State
    hooks = ParserHooks()

    def run(name, setup, post, exits=False):
        g = P.fn(name)
        if not R.require(g is not None and g.blocks, "%s not found" % name):
            return
        R.fn(g)
        sub = Num(g, P, hooks, max_paths=20000)
        sub.track_progress = True
        sub.inline_deny = (name,)
        st0 = State()
        ctx = setup(sub, st0)
        rets = [x for b in g.blocks.values() for x in b.elems if x["k"] == "ret"]
        try:
            sts = sub.states_at({-1} if exits else {r["id"] for r in rets}, entry_state=st0)
        except Limit as ex:
            R.broken("NUM trace limit in %s: %s" % (name, ex))
            return
        n = 0
        bad = None
        for st in (sts.get(-1, []) if exits else []):
            n += 1
            why = post(sub, st, None, ctx)
            if why:
                bad = "%s (branch trail %s)" % (why, st.trail[-4:])
        for r in ([] if exits else rets):
            for st in sts.get(r["id"], []):
                rv = sub.val(r["a"][0], st)
                n += 1
                why = post(sub, st, rv, ctx)
                if why:
                    bad = "%s at line %s (return value %r)" % (why, r.get("loc", ["?"])[0], rv)
        R.check(n > 0 and bad is None, "SUMMARY", "%s:postcondition" % name, "%s()" % name, "%d return states satisfy the contract the callers' analysis assumes" % n,
                "the body of %s does not establish the postcondition assumed at its call sites: %s" % (name, bad))

    def setup_reserve(rel):
        def f(sub, st0):
            b, a = _param(sub, st0, 0), _param(sub, st0, 1)
            base = "(%r)->" % b
            return {"base": base, "a": a, "rel": rel, "len": sub.field(st0, base + "len", "aws_byte_buf", "len"), "cap": sub.field(st0, base + "capacity", "aws_byte_buf", "capacity"),
                    "buf": sub.field(st0, base + "buffer", "aws_byte_buf", "buffer")}
        return f

    def post_reserve(sub, st, rv, c):
        l1, c1, b1 = st.env.get(c["base"] + "len"), st.env.get(c["base"] + "capacity"), st.env.get(c["base"] + "buffer")
        if l1 is None or c1 is None or b1 is None or rv is None:
            return "buffer fields or return value not tracked"
        if not (entails(st, l1 - c["len"]) and entails(st, c["len"] - l1)):
            return "len is changed"
        if rv.is_const() and rv.cval() == 0:
            req = (c["len"] + c["a"]) if c["rel"] else c["a"]
            if not entails(st, req - c1):
                return "capacity after success is not at least the requested one"
            if not entails(st, c["cap"] - c1):
                return "capacity shrinks"
            r = in_bounds(st, b1, c1)
            if r[0] != "ok" and not (entails(st, c1) and entails(st, -c1)):
                return "the storage is not known to be capacity bytes long"
            return None
        if rv.is_const() and rv.cval() == -1:
            if c1 != c["cap"] or b1 != c["buf"]:
                return "a failed call changes the buffer"
            return None
        return "return value is neither 0 nor -1"

    run("aws_byte_buf_reserve", setup_reserve(False), post_reserve)
    run("aws_byte_buf_reserve_relative", setup_reserve(True), post_reserve)

    def setup_find(sub, st0):
        i, t, o = _param(sub, st0, 0), _param(sub, st0, 1), _param(sub, st0, 2)
        bi, bt, bo = "(%r)->" % i, "(%r)->" % t, "(%r)->" % o
        return {"ip": sub.field(st0, bi + "ptr", "aws_byte_cursor", "ptr"), "il": sub.field(st0, bi + "len", "aws_byte_cursor", "len"),
                "tl": sub.field(st0, bt + "len", "aws_byte_cursor", "len"), "bo": bo, "op": sub.field(st0, bo + "ptr", "aws_byte_cursor", "ptr"), "ol": sub.field(st0, bo + "len", "aws_byte_cursor", "len")}

    def post_find(sub, st, rv, c):
        op, ol = st.env.get(c["bo"] + "ptr"), st.env.get(c["bo"] + "len")
        if rv is None or op is None or ol is None:
            return "result fields or return value not tracked"
        if rv.is_const() and rv.cval() == 0:
            for what, f in (("the match starts before the input", c["ip"] - op), ("the result does not end where the input ends", op + ol - c["ip"] - c["il"]),
                            ("the result does not end where the input ends", c["ip"] + c["il"] - op - ol), ("the pattern may be empty", Poly.const(1) - c["tl"]),
                            ("the pattern does not fit in the result", c["tl"] - ol)):
                if not entails(st, f):
                    return what
            return None
        if rv.is_const() and rv.cval() == -1:
            return None if (op == c["op"] and ol == c["ol"]) else "a failed search changes the result cursor"
        return "return value is neither 0 nor -1"

    run("aws_byte_cursor_find_exact", setup_find, post_find)

    def setup_app(sub, st0):
        hooks.entry(sub, st0)
        b = _param(sub, st0, 0)
        base = sub.base_of(st0, b)
        return {"base": base, "len": sub.field(st0, base + "len", "aws_byte_buf", "len"), "cap": sub.field(st0, base + "capacity", "aws_byte_buf", "capacity"),
                "buf": sub.field(st0, base + "buffer", "aws_byte_buf", "buffer")}

    def post_app(sub, st, rv, c):
        l1, c1, b1 = st.env.get(c["base"] + "len"), st.env.get(c["base"] + "capacity"), st.env.get(c["base"] + "buffer")
        if l1 is None or c1 is None or b1 is None:
            return "buffer fields not tracked"
        if c1 != c["cap"] or b1 != c["buf"]:
            return "capacity or storage changed"
        if not (entails(st, c["len"] + 1 - l1) and entails(st, l1 - c["len"] - 3)):
            return "len does not grow by 1..3"
        return None

    for nm in sorted(APPEND_CHAR):
        run(nm, setup_app, post_app, exits=True)


def errchan(R, P, fns):
    n = 0
    noraise = set()
    for f in fns:
        rt = f.rettype()
        if f.static and rt.get("w") == 32 and not rt.get("u") and not f.calls("aws_raise_error"):
            if any(r.node["a"] and f.is_const(RU.uncast(f, r.node["a"][0])) == -1 for r in f.returns()):
                noraise.add(f.name)
    for f in fns:
        rt = f.rettype()
        if not (rt.get("w") == 32 and not rt.get("u")) or rt.get("bool"):
            continue
        if f.name in noraise or f.name in ("get_month_number_from_str",):
            continue  # internal helper whose callers register the error (checked at the callers) / returns an index, not a status
        if f.name in ERRCHAN_OK:
            R.assumed_sites.append({"site": "ERRCHAN:" + f.name, "reason": ERRCHAN_OK[f.name]})
            continue
        dom = dominators(f)
        raises = f.calls("aws_raise_error")
        for r in f.returns():
            v = RU.uncast(f, r.node["a"][0]) if r.node["a"] else None
            if v is None or f.is_const(v) != -1:
                continue
            n += 1
            ok = any(ev_dominates(f, x, r, dom) or r in RU.reach_from(f, x) for x in raises)
            if not ok:
                for c, p, b in RU.guards(f, r, dom):
                    t = RU.call_test(f, c, p)
                    if t and t[1] == "nonzero" and t[0].get("callee") not in noraise:
                        ok = True  # a callee failed (it raised, or it is the user's callback)
                    g = RU.cmp_norm(f, c, p)
                    if g:
                        x = RU.uncast(f, g[0])
                        if x["k"] == "var":
                            # a status variable holding a callee's result
                            for e in f.all_events():
                                if e.kind == "decl" and any(vv["n"] == x["n"] and vv.get("init") and f.d(vv["init"])["k"] == "call" for vv in e.node["vars"]):
                                    ok = True
                                if e.kind == "access" and e.node["k"] == "var" and e.node["n"] == x["n"] and e.mode == "w":
                                    ok = True
            R.check(ok, "ERRCHAN", "%s:line%d" % (f.name, r.line), where(f, r), "error return preceded by aws_raise_error or a failing callee",
                    "AWS_OP_ERR is returned without registering an error code on this path")
    R.require(n >= 15, "only %d constant error returns found in parser functions" % n)


ABORT_OK = {
    "aws_xml_node_as_body": "API misuse flag (node already processed)",
    "aws_xml_node_traverse": "API misuse flag (node already processed)",
    "s_node_next_sibling": "internal callback stack entry present",
    "aws_xml_node_get_attribute": "API misuse (attribute index out of range given by the caller, not by the document)",
}


def aborts(R, P, fns):
    n = 0
    for f in fns:
        for e in f.calls({"aws_fatal_assert", "abort"}):
            n += 1
            why = ABORT_OK.get(f.name)
            cond = [f.show(f.d(c)) for c, p, b in RU.guards(f, e)][:3]
            if f.file.endswith("cbor.c") and ("encoder" in f.name or "s_cbor_encode" in f.name or "encode" in f.name):
                why = "encoder side (not driven by input bytes)"
            R.check(why is not None, "ABORT", "%s:fatal" % f.name, where(f, e), "fatal assertion on %s" % why,
                    "a parser can abort the process under condition %s, which is not a known API-misuse / internal-state condition" % cond)
    R.notes.append("%d fatal-assert/abort sites in parser functions reviewed against the API-misuse table" % n)


def _fallible(P, name, memo):
    """does the named program function return int and have a failing return (aws_raise_error / a non-zero constant)?"""
    if name not in memo:
        memo[name] = False
        g = P.fn(name)
        if g is not None and getattr(g, "blocks", None) and "w" in (g.rettype() or {}) and not (g.rettype() or {}).get("bool"):
            for r in g.returns():
                if not r.node.get("a"):
                    continue
                v = RU.uncast(g, r.node["a"][0])
                cv = g.is_const(v) if v is not None else None
                if (cv is not None and cv != 0) or (v is not None and v["k"] == "call" and v.get("callee") == "aws_raise_error"):
                    memo[name] = True
                    break
    return memo[name]


def loop_errors(R, P, fns):
    """LOOP-ERR: inside a loop whose trip count is declared by the input (an element count decoded from the document, not the
    number of bytes present), the failure of a consuming callee leaves the loop in the same iteration: otherwise a truncated
    document keeps the loop running for the declared count (up to 2^64 iterations) although nothing more can be consumed."""
    from sa.cfg import edges, dominators
    memo, n = {}, 0
    for f in fns:
        if not f.file.endswith("source/cbor.c"):
            continue
        dom = dominators(f)
        preds = f.preds()
        loops = {}
        for b in dom:
            for s_, _, _ in edges(f, b):
                if s_ in dom.get(b, ()):
                    body, st = {s_, b}, [b]
                    while st:
                        x = st.pop()
                        if x == s_:
                            continue
                        for p_ in preds.get(x, []):
                            if p_ not in body and p_ in dom:
                                body.add(p_)
                                st.append(p_)
                    loops.setdefault(s_, set()).update(body)
        for h, body in sorted(loops.items()):
            for e in f.all_events():
                if e.kind != "call" or e.blk not in body or not _fallible(P, e.node.get("callee") or "", memo):
                    continue
                # the local that receives the status, if any
                holder = None
                for el in f.blocks[e.blk].elems:
                    if el["k"] == "decl":
                        for v in el["vars"]:
                            if v.get("init") is not None and RU.uncast(f, v["init"]) is e.node:
                                holder = v["n"]
                    elif el["k"] == "bin" and el["op"] == "=" and RU.uncast(f, el["a"][1]) is e.node:
                        l_ = f.d(el["a"][0])
                        if l_ is not None and l_["k"] == "var":
                            holder = l_["n"]

                def arm(cond, pol):
                    """'ok' / 'err' when the branch decides the status, else None"""
                    if not isinstance(pol, bool):
                        return None
                    t = RU.cmp_norm(f, cond, pol)
                    if not t:
                        return None
                    x = RU.uncast(f, t[0])
                    if x is None or not (x is e.node or (holder and x["k"] == "var" and x["n"] == holder)):
                        return None
                    c = 0 if t[2] is None else f.is_const(t[2])
                    if c is None:
                        return None
                    if t[1] == "==":
                        return "ok" if c == 0 else "err"
                    if t[1] == "!=":
                        return "err" if c == 0 else "ok"
                    if t[1] in ("<", ">"):
                        return "err" if c == 0 else None
                    return None
                seen, work, spins = set(), [e.blk], None
                first = True
                while work and spins is None:
                    b = work.pop()
                    if b in seen and not first:
                        continue
                    first = False
                    seen.add(b)
                    for s_, cond, pol in edges(f, b):
                        a_ = arm(cond, pol) if cond is not None else None
                        if a_ == "ok":
                            continue  # tested and fine: what follows is not the failure's path
                        if a_ == "err":
                            # the failure's path: it must not come back to the header inside the loop
                            w2, sn2 = [s_], set()
                            while w2:
                                y = w2.pop()
                                if y == h:
                                    spins = "after the failure was seen the loop goes on"
                                    break
                                if y in sn2 or y not in body:
                                    continue
                                sn2.add(y)
                                w2.extend(z for z, _, _ in edges(f, y))
                            continue
                        if s_ == h:
                            spins = "the next iteration starts before the result was looked at"
                        elif s_ in body and s_ not in seen:
                            work.append(s_)
                n += 1
                R.check(spins is None, "LOOP-ERR", "%s:%s@%s" % (f.name, e.node.get("callee"), e.node.get("loc", [0])[0]), where(f, e), "a failing %s leaves the loop in the same iteration" % e.node.get("callee"),
                        "%s fails and %s: for a truncated document the loop runs for the element count the document declares (up to 2^64 iterations) instead of stopping at the first failure" % (e.node.get("callee"), spins))
    R.require(n >= 3, "only %d fallible calls inside count-driven decoder loops found (confirmed: 4 in aws_cbor_decoder_consume_next_whole_data_item)" % n)


def wrappers(R, P):
    f = P.fn("aws_json_value_new_from_string")
    if R.require(f is not None, "aws_json_value_new_from_string not found"):
        mk = f.calls("aws_string_new_from_cursor")
        ps = f.calls({"cJSON_Parse", "cJSON_ParseWithLength", "cJSON_ParseWithOpts"})
        ds = f.calls({"aws_string_destroy", "aws_string_destroy_secure"})
        R.check(len(mk) == 1 and len(ps) == 1 and "aws_string_c_str" in f.show(ps[0].node), "WRAPPER", "json:parses-nul-terminated-copy", where(f, ps[0]) if ps else f.name,
                "cJSON parses the NUL-terminated private copy", "cJSON is not given the NUL-terminated copy of the cursor")
        if mk and ds:
            okf, _ = RU.must_follow(f, lambda e: e is mk[0], lambda e: any(e is d for d in ds))
            R.check(okf, "WRAPPER", "json:copy-destroyed", where(f, mk[0]), "the temporary string is destroyed on every path")
    for name in ("aws_cbor_decoder_peek_type", "aws_cbor_decoder_consume_next_single_element", "aws_cbor_decoder_consume_next_whole_data_item", "aws_cbor_decoder_pop_next_unsigned_int_val",
                 "aws_cbor_decoder_pop_next_text_val", "aws_cbor_decoder_pop_next_bytes_val"):
        g = P.fn(name)
        if not R.require(g is not None, "%s not found" % name):
            continue
        dom = dominators(g)
        work = g.calls({"s_cbor_decode_next_element"})
        deleg = g.calls({"aws_cbor_decoder_consume_next_whole_data_item", "aws_cbor_decoder_peek_type", "aws_cbor_decoder_consume_next_single_element"})
        ok = bool(work or deleg)
        for e in work:  # raw decoding must be behind the sticky-error test; delegating to another checked entry point is fine
            gs = [g.show(g.d(c)) for c, p, b in RU.guards(g, e, dom)]
            ok = ok and any("error_code" in x for x in gs)
        if not work:  # pure delegation: the first delegate dominates everything else that touches the decoder
            ok = ok and any(all(x is d0 or ev_dominates(g, d0, x, dom) for x in g.field_accesses(rec="aws_cbor_decoder", modes=("w",))) for d0 in deleg)
        R.check(ok, "WRAPPER", "cbor:%s:sticky-error-first" % name, "%s()" % name, "the sticky decoder error is tested before any decoding")
    d = P.fn("s_cbor_decode_next_element")
    if R.require(d is not None, "s_cbor_decode_next_element not found"):
        adv = d.calls("aws_byte_cursor_advance")
        R.check(len(adv) == 1 and "result.read" in d.show(RU.arg(d, adv[0].node, 1)), "WRAPPER", "cbor:consumes-what-was-read", where(d, adv[0]) if adv else d.name,
                "the source cursor advances by exactly result.read", "the source is not advanced by the number of bytes libcbor reports")


MUTANTS = [dict(_m, scope={"stream": True}) for _m in _cs.MUTANTS] + [
    {"name": "json-number-copy-fills-the-whole-scratch-buffer", "file": "source/external/cJSON.c", "expect": "BOUND", "scope": {"cjson": True},
     "old": "(i < (sizeof(number_c_string) - 1)) &&", "new": "(i < sizeof(number_c_string)) &&"},
    {"name": "json-empty-object-decrements-twice", "file": "source/external/cJSON.c", "expect": "RECUR", "scope": {"cjson": True},
     "old": "        goto success; /* empty object */", "new": "        input_buffer->depth--;\n        goto success; /* empty object */"},
    {"name": "json-object-limit-after-descent", "file": "source/external/cJSON.c", "expect": "RECUR", "scope": {"cjson": True},
     "old": "    if (input_buffer->depth >= CJSON_NESTING_LIMIT)\n    {\n        return false; /* to deeply nested */\n    }\n    input_buffer->depth++;\n\n    if (cannot_access_at_index(input_buffer, 0) || (buffer_at_offset(input_buffer)[0] != '{'))",
     "new": "    if (input_buffer->depth > CJSON_NESTING_LIMIT + CJSON_NESTING_LIMIT * 1000000)\n    {\n        return false; /* to deeply nested */\n    }\n    input_buffer->depth++;\n\n    if (cannot_access_at_index(input_buffer, 0) || (buffer_at_offset(input_buffer)[0] != '{'))"},
    {"name": "cbor-array-item-failure-does-not-stop-the-count-loop", "file": "source/cbor.c", "expect": "LOOP-ERR", "scope": {"files": ["source/cbor.c"], "rules": ["LOOP-ERR"]},
     "old": "            for (uint64_t i = 0; i < num_array_item; i++) {\n                /* item */\n                if (aws_cbor_decoder_consume_next_whole_data_item(decoder)) {\n                    return AWS_OP_ERR;\n                }\n            }",
     "new": "            int item_result = AWS_OP_SUCCESS;\n            for (uint64_t i = 0; i < num_array_item; i++) {\n                item_result = aws_cbor_decoder_consume_next_whole_data_item(decoder);\n            }\n            if (item_result) {\n                return AWS_OP_ERR;\n            }"},
    {"name": "query-value-length-one-too-short", "file": "source/uri.c", "expect": "NOWRAP", "scope": {"files": ["source/uri.c"], "rules": []},
     "old": "        param->value.len = substr.len - param->key.len - 1;", "new": "        param->value.len = substr.len - param->key.len - 2;"},
    {"name": "ipv4-copy-fills-whole-buffer", "file": "source/host_utils.c", "expect": "CSTR", "scope": {"files": ["source/host_utils.c"], "rules": ["CSTR"]},
     "old": "    if (host.len > AWS_IPV4_STR_LEN - 1) {", "new": "    if (host.len > AWS_IPV4_STR_LEN) {"},
    {"name": "uuid-copy-not-zeroed", "file": "source/uuid.c", "expect": "CSTR", "scope": {"files": ["source/uuid.c"], "rules": ["CSTR"]},
     "old": "    char cpy[AWS_UUID_STR_LEN] = {0};", "new": "    char cpy[AWS_UUID_STR_LEN];"},
    {"name": "xml-end-search-from-doc-start", "file": "source/xml_parser.c", "expect": "BOUND",
     "old": "            memchr(next_location, '>', parser->doc.len - (size_t)(next_location - parser->doc.ptr));", "new": "            memchr(parser->doc.ptr, '>', parser->doc.len);"},
    {"name": "xml-end-search-whole-length", "file": "source/xml_parser.c", "expect": "BOUND",
     "old": "            memchr(next_location, '>', parser->doc.len - (size_t)(next_location - parser->doc.ptr));", "new": "            memchr(next_location, '>', parser->doc.len);"},
    {"name": "rfc822-tz-one-too-many", "file": "source/date_time.c", "expect": "BOUND", "old": "(index - state_start_index) < 5) {", "new": "(index - state_start_index) <= 6) {"},
    {"name": "xml-depth-guard-dropped", "file": "source/xml_parser.c", "expect": "RECUR", "old": "    if (doc_depth >= parser->max_depth) {", "new": "    if (doc_depth >= parser->max_depth && parser->max_depth == 0) {"},
    {"name": "uri-scheme-lookahead-unchecked", "file": "source/uri.c", "expect": "BOUND",
     "old": "    if ((size_t)(location_of_colon - str->ptr) + 1 >= str->len || *(location_of_colon + 1) != '/') {", "new": "    if (*(location_of_colon + 1) != '/') {"},
    {"name": "base64-decoded-len-too-small", "file": "source/encoding.c", "expect": "BOUND", "old": "    size_t decoded_len_tmp = (len / 4) * 3;", "new": "    size_t decoded_len_tmp = (len / 4) * 2;"},
    {"name": "base64-decode-final-block-ignores-padding", "file": "source/encoding.c", "expect": "BOUND", "old": "        padding = 1;\n", "new": "        padding = 2;\n"},
    {"name": "base64-encode-capacity-check-dropped", "file": "source/encoding.c", "expect": "BOUND", "old": "    if (AWS_UNLIKELY(output->capacity < needed_capacity)) {", "new": "    if (AWS_UNLIKELY(output->capacity < output->len)) {"},
    {"name": "uri-encode-reserves-2x", "file": "source/uri.c", "expect": "REQUIRES", "old": "aws_mul_size_checked(3, cursor->len, &capacity_needed)", "new": "aws_mul_size_checked(2, cursor->len, &capacity_needed)"},
    {"name": "uri-decode-no-reserve", "file": "source/uri.c", "expect": "BOUND", "old": "    if (aws_byte_buf_reserve_relative(buffer, cursor->len)) {", "new": "    if (aws_byte_buf_reserve_relative(buffer, cursor->len / 2)) {"},
    {"name": "xml-closing-tag-no-progress", "file": "source/xml_parser.c", "expect": "PROGRESS", "old": "                    aws_byte_cursor_advance(&parser->doc, skip_len + 1);", "new": "                    aws_byte_cursor_advance(&parser->doc, skip_len);"},
    {"name": "reserve-grows-too-little", "file": "source/byte_buf.c", "expect": "SUMMARY", "old": "    buffer->capacity = requested_capacity;\n\n    AWS_POSTCONDITION(aws_byte_buf_is_valid(buffer));\n    return AWS_OP_SUCCESS;\n}\n\nint aws_byte_buf_reserve_relative",
     "new": "    buffer->capacity = requested_capacity + 1;\n\n    AWS_POSTCONDITION(aws_byte_buf_is_valid(buffer));\n    return AWS_OP_SUCCESS;\n}\n\nint aws_byte_buf_reserve_relative"},
    {"name": "find-exact-accepts-short-tail", "file": "source/byte_buf.c", "expect": "SUMMARY", "old": "        if (working_cur.len < to_find->len) {", "new": "        if (working_cur.len + 1 < to_find->len) {"},
    {"name": "err-without-raise", "file": "source/uuid.c", "expect": "ERRCHAN", "old": "        return aws_raise_error(AWS_ERROR_MALFORMED_INPUT_STRING);", "new": "        return AWS_OP_ERR;"},
]
for _m in MUTANTS:
    _m.setdefault("scope", {"files": [_m["file"]], "rules": [_m["expect"]]})
