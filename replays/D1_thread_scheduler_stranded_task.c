#include <aws/common/thread_scheduler.h>
#include <aws/common/task_scheduler.h>
#include <aws/common/thread.h>
#include <aws/common/clock.h>
#include <stdio.h>
static volatile int t1_runs=0, t2_runs=0; static volatile int t1_started=0;
static void t1(struct aws_task*t, void*a, enum aws_task_status s){(void)t;(void)a;(void)s; t1_started=1; aws_thread_current_sleep(300000000ULL); t1_runs++;}
static void t2(struct aws_task*t, void*a, enum aws_task_status s){(void)t;(void)a; t2_runs++; printf("t2 invoked status=%d\n",(int)s);}
int main(void){
  struct aws_allocator *al=aws_default_allocator(); aws_common_library_init(al);
  struct aws_thread_scheduler *ts=aws_thread_scheduler_new(al,NULL);
  struct aws_task a,b; aws_task_init(&a,t1,NULL,"t1"); aws_task_init(&b,t2,NULL,"t2");
  aws_thread_scheduler_schedule_now(ts,&a);
  while(!t1_started) aws_thread_current_sleep(1000000ULL);
  aws_thread_scheduler_schedule_now(ts,&b);   /* scheduler thread is busy inside t1 */
  aws_thread_scheduler_release(ts);           /* last reference */
  printf("after release: t1_runs=%d t2_runs=%d (expected 1 and 1)\n",t1_runs,t2_runs);
  return 0;}
