/* UNMODIFIED library: an at-exit callback registered from inside an at-exit callback of the same thread is accepted
 * (AWS_OP_SUCCESS) but never run, and its node is leaked: thread_fn reads the chain head once, before running the chain,
 * while aws_thread_current_at_exit keeps prepending to the (already consumed) head.
 * build: gcc -O1 -g -I/repo/include -I/repo/_build/generated/include D25_nested_at_exit.c /repo/_build/libaws-c-common.a -lpthread -ldl -lm -lrt */
#include <aws/common/common.h>
#include <aws/common/thread.h>
#include <stdio.h>
static int s_inner_ran = 0, s_outer_ran = 0, s_inner_rc = -1;
static void s_inner(void *u) { (void)u; s_inner_ran++; }
static void s_outer(void *u) { (void)u; s_outer_ran++; s_inner_rc = aws_thread_current_at_exit(s_inner, NULL); }
static void s_fn(void *a) { (void)a; aws_thread_current_at_exit(s_outer, NULL); }
int main(void) {
    struct aws_allocator *tracer = aws_mem_tracer_new(aws_default_allocator(), NULL, AWS_MEMTRACE_BYTES, 0);
    aws_common_library_init(tracer);
    struct aws_thread t;
    aws_thread_init(&t, tracer);
    aws_thread_launch(&t, s_fn, NULL, NULL);
    aws_thread_join(&t);
    aws_thread_clean_up(&t);
    size_t left = aws_mem_tracer_bytes(tracer);
    printf("outer ran %d, inner registration rc=%d, inner ran %d, bytes still allocated from the thread's allocator: %zu\n",
           s_outer_ran, s_inner_rc, s_inner_ran, left);
    if (s_inner_rc == AWS_OP_SUCCESS && (s_inner_ran != 1 || left != 0)) {
        printf("VIOLATION: a successfully registered at-exit callback of the thread was not run exactly once / its node leaked\n");
        return 1;
    }
    printf("PASS\n");
    return 0;
}
