/* UNMODIFIED library.
 * D23: the date-only RFC 822 text the library itself produces (aws_date_time_to_utc_time_short_str, "%a, %d %b %Y") is
 *      rejected by its parser, with the explicit format and with auto-detection: format -> parse does not round-trip for
 *      that format.  (The ISO 8601 date-only forms do.)
 * D24: aws_date_time_as_nanos is not consistent with the seconds / milliseconds views after 2554-07-21T23:34:33Z: the
 *      seconds->nanoseconds conversion saturates at UINT64_MAX and the milliseconds part is then added with wrap-around.
 * build: gcc -O1 -g -I/repo/include -I/repo/_build/generated/include D23_D24_date_only_and_nanos.c /repo/_build/libaws-c-common.a -lpthread -ldl -lm -lrt */
#include <aws/common/byte_buf.h>
#include <aws/common/date_time.h>
#include <inttypes.h>
#include <stdio.h>

int main(void) {
    int fail = 0;
    struct aws_date_time dt, back;
    aws_date_time_init_epoch_secs(&dt, 1602756000.0); /* 2020-10-15T10:00:00Z */
    enum aws_date_format fmts[] = {AWS_DATE_FORMAT_RFC822, AWS_DATE_FORMAT_ISO_8601, AWS_DATE_FORMAT_ISO_8601_BASIC};
    const char *names[] = {"RFC822", "ISO_8601", "ISO_8601_BASIC"};
    for (int i = 0; i < 3; ++i) {
        uint8_t storage[AWS_DATE_TIME_STR_MAX_LEN];
        struct aws_byte_buf buf = aws_byte_buf_from_empty_array(storage, sizeof(storage));
        if (aws_date_time_to_utc_time_short_str(&dt, fmts[i], &buf)) {
            printf("%s: formatting failed\n", names[i]);
            return 2;
        }
        struct aws_byte_cursor cur = aws_byte_cursor_from_buf(&buf);
        int r1 = aws_date_time_init_from_str_cursor(&back, &cur, fmts[i]);
        long long t1 = r1 ? -1 : (long long)back.timestamp;
        int r2 = aws_date_time_init_from_str_cursor(&back, &cur, AWS_DATE_FORMAT_AUTO_DETECT);
        long long t2 = r2 ? -1 : (long long)back.timestamp;
        printf("%-15s date-only \"%.*s\": explicit rc=%d t=%lld, auto rc=%d t=%lld (want 1602720000)\n", names[i], (int)buf.len, (const char *)buf.buffer, r1, t1, r2, t2);
        if (r1 || r2) {
            printf("  VIOLATION(D23): the library's own date-only %s text is not parseable\n", names[i]);
            fail = 1;
        }
    }
    /* D24 */
    aws_date_time_init_epoch_millis(&dt, UINT64_C(32503680000500)); /* 3000-01-01T00:00:00.500Z */
    uint64_t ms = aws_date_time_as_millis(&dt), ns = aws_date_time_as_nanos(&dt);
    printf("year 3000: as_millis=%" PRIu64 " as_nanos=%" PRIu64 " (as_nanos/1000000=%" PRIu64 ")\n", ms, ns, ns / 1000000);
    if (ns / 1000000 != ms) {
        printf("  VIOLATION(D24): the nanosecond view disagrees with the millisecond view\n");
        fail = 1;
    }
    printf(fail ? "FAIL\n" : "PASS\n");
    return fail;
}
