/* D30 (C11): "every finite number unchanged when it has at most 15 significant decimal digits and otherwise within one part
 * in 2^52 of its value" - DBL_MAX is printed with 15 digits as 1.79769313486232e+308: print_number re-reads that text to
 * decide whether 15 digits are enough, the text overflows to infinity, and compare_double(inf, DBL_MAX) evaluates
 * fabs(inf - d) <= inf * DBL_EPSILON, i.e. inf <= inf, which is true.  The document re-parses as infinity and prints as null.
 * build: gcc -I/repo/include -I/repo/_build/generated/include D30_json_dbl_max_round_trip.c /repo/_build/libaws-c-common.a -lpthread -ldl -lm -lrt */
#include <aws/common/byte_buf.h>
#include <aws/common/common.h>
#include <aws/common/json.h>
#include <float.h>
#include <math.h>
#include <stdio.h>
int main(void) {
    struct aws_allocator *a = aws_default_allocator();
    aws_common_library_init(a);
    struct aws_json_value *v = aws_json_value_new_number(a, DBL_MAX);
    struct aws_byte_buf out;
    aws_byte_buf_init(&out, a, 64);
    aws_byte_buf_append_json_string(v, &out);
    printf("DBL_MAX serialises as %.*s\n", (int)out.len, out.buffer);
    struct aws_json_value *r = aws_json_value_new_from_string(a, aws_byte_cursor_from_buf(&out));
    double back = 0;
    int got = r ? aws_json_value_get_number(r, &back) : -1;
    printf("re-parsed: %s %.17g\n", got == 0 ? "number" : "not a number", back);
    int ok = got == 0 && isfinite(back) && fabs(back - DBL_MAX) <= DBL_MAX * DBL_EPSILON;
    printf(ok ? "PASS\n" : "FAIL: a finite double does not survive serialise / parse\n");
    if (r) aws_json_value_destroy(r);
    aws_json_value_destroy(v);
    aws_byte_buf_clean_up(&out);
    aws_common_library_clean_up();
    return ok ? 0 : 1;
}
