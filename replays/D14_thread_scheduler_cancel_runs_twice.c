/* D14: a task cancelled while it is still pending is invoked twice by the thread scheduler (RUN_READY, then CANCELED).
 * Two tasks are handed over in one pass; the first blocks inside run-all, the client cancels the second (still pending:
 * it has not been invoked), then lets the first finish.  The cancel finds nothing in the hand-over queue (the task is
 * already inside the single-threaded scheduler), so it queues a cancellation record; run-all goes on to run the second
 * task, and the next pass feeds the record to aws_task_scheduler_cancel_task, which invokes the task again. */
#include <aws/common/thread_scheduler.h>
#include <aws/common/task_scheduler.h>
#include <aws/common/thread.h>
#include <aws/common/clock.h>
#include <stdio.h>
static volatile int blocker_in = 0, release_blocker = 0, t_runs = 0, t_run_ready = 0, t_canceled = 0;
static void blocker(struct aws_task *t, void *a, enum aws_task_status s) {
    (void)t; (void)a; (void)s;
    blocker_in = 1;
    while (!release_blocker) aws_thread_current_sleep(1000000ULL);
}
static void victim(struct aws_task *t, void *a, enum aws_task_status s) {
    (void)t; (void)a;
    t_runs++;
    if (s == AWS_TASK_STATUS_RUN_READY) t_run_ready++; else t_canceled++;
}
int main(void) {
    struct aws_allocator *al = aws_default_allocator();
    aws_common_library_init(al);
    struct aws_thread_scheduler *ts = aws_thread_scheduler_new(al, NULL);
    struct aws_task b, v;
    aws_task_init(&b, blocker, NULL, "blocker");
    aws_task_init(&v, victim, NULL, "victim");
    /* hand both over before the thread's next pass: schedule them back to back, the thread needs tens of microseconds to wake */
    aws_thread_scheduler_schedule_now(ts, &b);
    aws_thread_scheduler_schedule_now(ts, &v);
    while (!blocker_in) aws_thread_current_sleep(1000000ULL);
    if (t_runs != 0) { printf("INCONCLUSIVE: victim ran before the blocker (handed over in separate passes)\n"); return 2; }
    aws_thread_scheduler_cancel_task(ts, &v);   /* victim is still pending: not invoked yet */
    aws_thread_current_sleep(20000000ULL);
    release_blocker = 1;
    aws_thread_current_sleep(300000000ULL);
    aws_thread_scheduler_release(ts);
    printf("victim invoked %d time(s): %d x RUN_READY, %d x CANCELED (expected exactly 1)\n", t_runs, t_run_ready, t_canceled);
    return t_runs == 1 ? 0 : 1;
}
