#include <aws/common/xml_parser.h>
#include <aws/common/byte_buf.h>
#include <stdio.h>
#include <stdlib.h>
#include <string.h>
static int depth=0;
static int on_child(struct aws_xml_node *n, void *u){ (void)u; struct aws_byte_cursor nm=aws_xml_node_get_name(n); printf("%*schild '%.*s'\n",depth*2,"",(int)nm.len,nm.ptr); return 0; /* skip */ }
static int on_root(struct aws_xml_node *n, void *u){ struct aws_byte_cursor nm=aws_xml_node_get_name(n); printf("root '%.*s'\n",(int)nm.len,nm.ptr); if(u) return aws_xml_node_traverse(n,on_child,NULL); return 0; }
int main(int argc,char**argv){ aws_common_library_init(aws_default_allocator());
  const char *s=argv[1]; size_t n=strlen(s); char *heap=malloc(n); memcpy(heap,s,n);
  struct aws_xml_parser_options o={.doc=aws_byte_cursor_from_array(heap,n),.on_root_encountered=on_root,.user_data=(argc>2)?(void*)1:NULL};
  int r=aws_xml_parse(aws_default_allocator(),&o); printf("rc=%d err=%s\n",r,r?aws_error_name(aws_last_error()):"-"); free(heap); return 0;}
