/* D15: aws_cbor_encoder_write_float(2^63) converts a double that int64_t cannot represent.
 * The range guard `value <= (double)INT64_MAX` admits 2^63 because (double)INT64_MAX rounds up to 2^63; the following
 * (int64_t)value is then undefined behaviour (C11 6.3.1.4).  On x86-64 the conversion happens to give INT64_MIN, the
 * round-trip comparison fails and the value falls through to the float encodings; where the conversion saturates
 * (AArch64) the comparison succeeds and the value is written as the integer 2^63 - 1.
 * Build with the library's cbor.c recompiled under -fsanitize=float-cast-overflow:
 *   gcc -O1 -g -fsanitize=float-cast-overflow -fno-sanitize-recover=all -I/repo/include -I/repo/_build/generated/include \
 *       -I/repo/source/external/libcbor D15_cbor_float_2pow63.c /repo/source/cbor.c /repo/_build/libaws-c-common.a -lpthread -ldl -lm -lrt -o d15
 * unfixed tree: "runtime error: 9.22337e+18 is outside the range of representable values of type 'long'" (exit != 0);
 * fixed tree: prints the 5-byte single-float encoding fa 5f 00 00 00 and exits 0. */
#include <aws/common/cbor.h>
#include <aws/common/byte_buf.h>
#include <stdio.h>
int main(void) {
    struct aws_allocator *al = aws_default_allocator();
    aws_common_library_init(al);
    struct aws_cbor_encoder *e = aws_cbor_encoder_new(al);
    aws_cbor_encoder_write_float(e, 9223372036854775808.0);
    struct aws_byte_cursor c = aws_cbor_encoder_get_encoded_data(e);
    for (size_t i = 0; i < c.len; ++i) printf("%02x ", c.ptr[i]);
    printf("\n");
    int ok = c.len == 5 && c.ptr[0] == 0xfa && c.ptr[1] == 0x5f;
    aws_cbor_encoder_destroy(e);
    return ok ? 0 : 1;
}
