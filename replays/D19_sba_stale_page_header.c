/* UNMODIFIED library, plain glibc malloc as parent, no interposition: a large block released through the
 * SBA is mistaken for a 512-class chunk because the dropped page's header is still intact. */
#include <aws/common/allocator.h>
#include <aws/common/common.h>
#include <stdint.h>
#include <stdio.h>
#include <string.h>

int main(void) {
    struct aws_allocator *sba = aws_small_block_allocator_new(aws_default_allocator(), false);
    uint8_t *small[7];
    for (int i = 0; i < 7; ++i) {
        small[i] = aws_mem_acquire(sba, 512);
        memset(small[i], 0x10 + i, 512);
    }
    uintptr_t page = (uintptr_t)small[0] & ~(uintptr_t)4095;
    for (int i = 0; i < 7; ++i) {
        aws_mem_release(sba, small[i]);
    }
    printf("reserved after releasing the 7 blocks: %zu\n", aws_small_block_allocator_bytes_reserved(sba));
    uint8_t *A = aws_mem_acquire(sba, 1000); /* receive buffer, not written yet */
    uint8_t *B = aws_mem_acquire(sba, 600);
    memset(B, 0xBB, 600);
    printf("dropped page %p  A=%p  B=%p\n", (void *)page, (void *)A, (void *)B);
    aws_mem_release(sba, B); /* a parent block: must go back to malloc */
    memset(A, 0xAA, 1000);
    uint8_t *X = aws_mem_acquire(sba, 400); /* must be a chunk of a (new) 512-class page */
    printf("X=%p, active=%zu reserved=%zu\n", (void *)X, aws_small_block_allocator_bytes_active(sba),
           aws_small_block_allocator_bytes_reserved(sba));
    int fail = 0;
    if (X == B) {
        printf("  VIOLATION: acquire(400) returned the released parent block B as a small block\n");
        fail = 1;
    }
    for (int i = 0; i < 1000; ++i) {
        if (A[i] != 0xAA) {
            printf("  VIOLATION: live block A damaged at offset %d (0x%02x)\n", i, A[i]);
            fail = 1;
            break;
        }
    }
    if (aws_small_block_allocator_bytes_active(sba) != 512) {
        printf("  VIOLATION: active bytes %zu, expected 512\n", aws_small_block_allocator_bytes_active(sba));
        fail = 1;
    }
    printf(fail ? "FAIL\n" : "PASS\n");
    return fail;
}
