/* D18: "the next-task-time query always reports the earliest pending time" does not hold from inside a running task: the
 * tasks of the current run-all call have been moved to a list private to that call, which aws_task_scheduler_has_tasks
 * does not look at.  A runs first and asks; B (due, not yet invoked) is pending but the query says `no tasks`. */
#include <aws/common/task_scheduler.h>
#include <stdio.h>
static struct aws_task_scheduler sched;
static int b_ran = 0, seen_has = -1;
static uint64_t seen_time = 0;
static void fa(struct aws_task *t, void *a, enum aws_task_status s) { (void)t; (void)a; (void)s; seen_has = aws_task_scheduler_has_tasks(&sched, &seen_time); }
static void fb(struct aws_task *t, void *a, enum aws_task_status s) { (void)t; (void)a; (void)s; b_ran = 1; }
int main(void) {
    aws_common_library_init(aws_default_allocator());
    aws_task_scheduler_init(&sched, aws_default_allocator());
    struct aws_task A, B;
    aws_task_init(&A, fa, NULL, "A");
    aws_task_init(&B, fb, NULL, "B");
    aws_task_scheduler_schedule_now(&sched, &A);
    aws_task_scheduler_schedule_future(&sched, &B, 7);
    aws_task_scheduler_run_all(&sched, 10);
    printf("inside A: has_tasks=%d next=%llu; B ran afterwards in the same run-all: %d\n", seen_has, (unsigned long long)seen_time, b_ran);
    aws_task_scheduler_clean_up(&sched);
    return (seen_has == 1 && seen_time <= 7) ? 0 : 1;
}
