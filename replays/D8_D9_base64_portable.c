#include <aws/common/encoding.h>
#include <stdio.h>
#include <string.h>
int main(int argc,char**argv){ aws_common_library_init(aws_default_allocator());
 for(int k=1;k<argc;k++){ struct aws_byte_cursor in=aws_byte_cursor_from_c_str(argv[k]); uint8_t outb[64]; memset(outb,0xEE,sizeof outb);
  struct aws_byte_buf out=aws_byte_buf_from_empty_array(outb,sizeof outb);
  int r=aws_base64_decode(&in,&out); printf("%-10s rc=%d len=%zu bytes:",argv[k],r,out.len); for(size_t i=0;i<out.len&&!r;i++)printf(" %02x",outb[i]); printf("\n"); }
 return 0;}
