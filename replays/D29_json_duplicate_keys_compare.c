/* D29 (C11): "a value tree ... parsed from text ... a duplicate compares equal to its original" - but the parser accepts an
 * object with two members of the same key ({"a":1,"a":2}; only the API's add refuses a second member with an existing key),
 * and cJSON_Compare looks every member of one object up BY KEY in the other (first match), so the second "a" of the original is
 * compared with the first "a" of the copy: the tree compares unequal to its own duplicate (and to itself).
 * build: gcc -I/repo/include -I/repo/_build/generated/include D29_json_duplicate_keys_compare.c /repo/_build/libaws-c-common.a -lpthread -ldl -lm -lrt */
#include <aws/common/common.h>
#include <aws/common/json.h>
#include <stdio.h>
int main(void) {
    struct aws_allocator *a = aws_default_allocator();
    aws_common_library_init(a);
    struct aws_json_value *v = aws_json_value_new_from_string(a, aws_byte_cursor_from_c_str("{\"a\":1,\"a\":2}"));
    if (!v) { printf("parse refused the document (duplicate keys rejected): PASS\n"); return 0; }
    struct aws_json_value *d = aws_json_value_duplicate(v);
    bool eq_dup = aws_json_value_compare(v, d, true);
    bool eq_self = aws_json_value_compare(v, v, true);
    printf("parsed {\"a\":1,\"a\":2}: equal to its duplicate: %d, equal to itself: %d\n", eq_dup, eq_self);
    int ok = eq_dup && eq_self;
    printf(ok ? "PASS\n" : "FAIL: a parsed tree with a repeated key does not compare equal to its duplicate\n");
    aws_json_value_destroy(d);
    aws_json_value_destroy(v);
    aws_common_library_clean_up();
    return ok ? 0 : 1;
}
