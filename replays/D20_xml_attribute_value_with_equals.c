/* D20: an attribute whose value contains '=' (no spaces: inside the supported dialect) is silently dropped.
 * s_load_node_decl splits each name="value" pair at every '=' into a two-slot list; a third piece makes the split fail
 * and the pair is skipped without an error.  <r k="x=y" j="1">t</r> reports one attribute, j. */
#include <aws/common/xml_parser.h>
#include <stdio.h>
#include <string.h>
static int n_attr = -1, k_ok = 0;
static int on_root(struct aws_xml_node *node, void *ud) {
    (void)ud;
    n_attr = (int)aws_xml_node_get_num_attributes(node);
    for (int i = 0; i < n_attr; ++i) {
        struct aws_xml_attribute a = aws_xml_node_get_attribute(node, (size_t)i);
        printf("  attribute [%.*s] = [%.*s]\n", (int)a.name.len, a.name.ptr, (int)a.value.len, a.value.ptr);
        if (a.name.len == 1 && a.name.ptr[0] == 'k' && a.value.len == 3 && !memcmp(a.value.ptr, "x=y", 3)) k_ok = 1;
    }
    struct aws_byte_cursor body;
    return aws_xml_node_as_body(node, &body);
}
int main(void) {
    aws_common_library_init(aws_default_allocator());
    const char *doc = "<r k=\"x=y\" j=\"1\">t</r>";
    struct aws_xml_parser_options opt = {.doc = aws_byte_cursor_from_c_str(doc), .on_root_encountered = on_root};
    int rc = aws_xml_parse(aws_default_allocator(), &opt);
    printf("parse rc=%d, %d attribute(s) reported for %s\n", rc, n_attr, doc);
    return (rc == 0 && n_attr == 2 && k_ok) ? 0 : 1;
}
