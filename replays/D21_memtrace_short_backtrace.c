/* UNMODIFIED library (source/memtrace.c as it is); only aws_backtrace is replaced at link time (-Wl,--wrap) by a capture
 * that yields 2 frames - the "pathological case of stack_depth <= FRAMES_TO_SKIP" the comment in s_alloc_tracer_track
 * describes (optimised builds where the two tracer frames are all there is).  With frames_per_stack = 1 the record has
 * room for ONE frame (calloc(1, sizeof(struct stack_trace) + 1 * sizeof(void *)) = 16 bytes), but that branch copies
 * stack_depth = 2 frames into it: an 8-byte heap overflow on the first traced allocation.
 *
 * build:  gcc -O1 -g -I/repo/include -I/repo/_build/generated/include D21_memtrace_short_backtrace.c \
 *             /repo/_build/libaws-c-common.a -Wl,--wrap=aws_backtrace -lpthread -ldl -lm -lrt -o d21
 * run:    valgrind -q --error-exitcode=1 ./d21     (Invalid write of size 8 ... 0 bytes after a block of size 16 alloc'd)
 */
#include <aws/common/allocator.h>
#include <aws/common/common.h>
#include <stdio.h>

size_t __wrap_aws_backtrace(void **stack_frames, size_t num_frames) {
    /* a platform that can unwind (so stack tracing stays enabled) but sees only the two tracer frames */
    size_t n = num_frames < 2 ? num_frames : 2;
    for (size_t i = 0; i < n; ++i) {
        stack_frames[i] = (void *)(uintptr_t)(0x1000 + i);
    }
    return n;
}

int main(void) {
    struct aws_allocator *tracer = aws_mem_tracer_new(aws_default_allocator(), NULL, AWS_MEMTRACE_STACKS, 1 /* frames_per_stack */);
    void *p = aws_mem_acquire(tracer, 32); /* the stack record for this call site is created here */
    printf("bytes=%zu count=%zu\n", aws_mem_tracer_bytes(tracer), aws_mem_tracer_count(tracer));
    aws_mem_release(tracer, p);
    aws_mem_tracer_destroy(tracer);
    return 0;
}
