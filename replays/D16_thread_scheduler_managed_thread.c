/* D16: with thread options asking for the MANAGED join strategy, the final release of a thread scheduler does not wait
 * for its thread: aws_thread_join() is a no-op for managed threads, so the destroy callback frees the scheduler (mutex,
 * condition variable, task scheduler) while the scheduler thread is still inside a task.
 * unfixed: "release returned while the task was still running" (exit 1); fixed: release returns after the task (exit 0). */
#include <aws/common/thread_scheduler.h>
#include <aws/common/task_scheduler.h>
#include <aws/common/thread.h>
#include <aws/common/clock.h>
#include <stdio.h>
static volatile int started = 0, finished = 0;
static void slow(struct aws_task *t, void *a, enum aws_task_status s) {
    (void)t; (void)a; (void)s;
    started = 1;
    aws_thread_current_sleep(300000000ULL);
    finished = 1;
}
int main(void) {
    struct aws_allocator *al = aws_default_allocator();
    aws_common_library_init(al);
    struct aws_thread_options opts = *aws_default_thread_options();
    opts.join_strategy = AWS_TJS_MANAGED;
    struct aws_thread_scheduler *ts = aws_thread_scheduler_new(al, &opts);
    static struct aws_task task;
    aws_task_init(&task, slow, NULL, "slow");
    aws_thread_scheduler_schedule_now(ts, &task);
    while (!started) aws_thread_current_sleep(1000000ULL);
    aws_thread_scheduler_release(ts);
    int done_at_return = finished;
    printf("release returned %s\n", done_at_return ? "after the task finished" : "while the task was still running (scheduler freed under its thread)");
    aws_thread_current_sleep(500000000ULL);
    aws_thread_join_all_managed();
    return done_at_return ? 0 : 1;
}
