/* D28 (C06): "A fixed-capacity queue refuses pushes beyond its capacity and is otherwise identical" - but a queue set up
 * with aws_priority_queue_init_static refuses every push that carries a handle (AWS_ERROR_UNSUPPORTED_OPERATION, the push is
 * rolled back), however much room it has: the handle array is only ever created with the container's allocator, and a
 * static queue has none.  Deliberate (the error code says so), recorded as a known finding rather than changed.
 * build: gcc -I/repo/include -I/repo/_build/generated/include D28_static_queue_refuses_handles.c /repo/_build/libaws-c-common.a -lpthread -ldl -lm -lrt */
#include <aws/common/byte_buf.h>
#include <aws/common/priority_queue.h>
#include <stdio.h>
static int cmp(const void *a, const void *b) { return *(const int *)a - *(const int *)b; }
int main(void) {
    int storage[8];
    struct aws_byte_buf heap = aws_byte_buf_from_empty_array(storage, sizeof(storage));
    struct aws_priority_queue q;
    aws_priority_queue_init_static(&q, &heap, 8, sizeof(int), cmp);
    int v = 5;
    struct aws_priority_queue_node node;
    aws_priority_queue_node_init(&node);
    int rc_plain = aws_priority_queue_push(&q, &v);
    int rc_handle = aws_priority_queue_push_ref(&q, &v, &node);
    printf("static queue, capacity 8: push -> %d, push with a handle -> %d (error %d), size %zu\n", rc_plain, rc_handle, aws_last_error(), aws_priority_queue_size(&q));
    int ok = rc_plain == 0 && rc_handle == 0 && aws_priority_queue_size(&q) == 2;
    printf(ok ? "PASS\n" : "FAIL: the fixed-capacity queue is not `otherwise identical`: it takes no handles\n");
    return ok ? 0 : 1;
}
