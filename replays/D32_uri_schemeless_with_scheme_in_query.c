/* D32 (C13): "Parsing a URI string assembled from components ... yields exactly those components ... for all combinations of
 * present/absent components" - a URI WITHOUT a scheme whose path or query contains "://" (a redirect target, say) is split at
 * that later colon: s_parse_scheme takes the first ':' of the whole text that is followed by '/', wherever it stands.
 * www.test.com/a?next=http://x/y  ->  scheme "www.test.com/a?next=http", host "x", path "/y".
 * build: gcc -I/repo/include -I/repo/_build/generated/include D32_uri_schemeless_with_scheme_in_query.c /repo/_build/libaws-c-common.a -lpthread -ldl -lm -lrt */
#include <aws/common/common.h>
#include <aws/common/uri.h>
#include <stdio.h>
#include <string.h>
static int eq(struct aws_byte_cursor c, const char *s) { return c.len == strlen(s) && memcmp(c.ptr, s, c.len) == 0; }
int main(void) {
    struct aws_allocator *a = aws_default_allocator();
    aws_common_library_init(a);
    struct aws_byte_cursor text = aws_byte_cursor_from_c_str("www.test.com/a?next=http://x/y");
    struct aws_uri uri;
    if (aws_uri_init_parse(&uri, a, &text)) { printf("parse failed\n"); return 1; }
    printf("scheme=[%.*s] host=[%.*s] path=[%.*s] query=[%.*s]\n", (int)uri.scheme.len, uri.scheme.ptr, (int)uri.host_name.len, uri.host_name.ptr,
           (int)uri.path.len, uri.path.ptr, (int)uri.query_string.len, uri.query_string.ptr);
    int ok = uri.scheme.len == 0 && eq(uri.host_name, "www.test.com") && eq(uri.path, "/a") && eq(uri.query_string, "next=http://x/y");
    printf(ok ? "PASS\n" : "FAIL: a scheme-less URI is split at a ':' inside its query\n");
    aws_uri_clean_up(&uri);
    aws_common_library_clean_up();
    return ok ? 0 : 1;
}
