/* D17: "a double is stored in the smallest form that loses nothing" does not hold for integral doubles >= 2^32 that a
 * single float represents exactly: the integer form is tried first and wins with a 9-byte head, a single float needs 5.
 * prints the encodings; exit 1 while the library writes 9 bytes for 4294967296.0 */
#include <aws/common/cbor.h>
#include <stdio.h>
static size_t enc(double v) {
    struct aws_cbor_encoder *e = aws_cbor_encoder_new(aws_default_allocator());
    aws_cbor_encoder_write_float(e, v);
    struct aws_byte_cursor c = aws_cbor_encoder_get_encoded_data(e);
    printf("%-22.1f ->", v);
    for (size_t i = 0; i < c.len; ++i) printf(" %02x", c.ptr[i]);
    printf("  (%zu bytes)\n", c.len);
    size_t n = c.len;
    aws_cbor_encoder_destroy(e);
    return n;
}
int main(void) {
    aws_common_library_init(aws_default_allocator());
    size_t a = enc(4294967296.0);      /* 2^32: float32 exact (fa 4f 80 00 00), library writes 1b 00 00 00 01 00 00 00 00 */
    size_t b = enc(1099511627776.0);   /* 2^40 */
    size_t c = enc(-34359738368.0);    /* -2^35 */
    enc(4294967295.0);                 /* below 2^32: the 5-byte integer is as small as the single */
    return (a == 5 && b == 5 && c == 5) ? 0 : 1;
}
