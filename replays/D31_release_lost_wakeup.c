/* D31 (C08): "No interleaving of the calling threads with the scheduler thread ... deadlocks", quantified over "all placements
 * of the wake-up notification relative to the scheduler thread's wait" - the final release published the exit request
 * (store should_exit, notify_all) WITHOUT the mutex: when it lands between the scheduler thread's predicate check and its wait,
 * the notification finds no waiter, and the release blocks in the join for the whole wait - 30 s when idle, otherwise until
 * the next timer (a timer a year ahead: a year).  The interleaving is forced by interposing the wait
 * (gcc ... -Wl,--wrap=aws_condition_variable_wait_for); the wait is capped at 5 s so that the replay ends.
 * build: gcc -I/repo/include -I/repo/_build/generated/include D31_release_lost_wakeup.c /repo/_build/libaws-c-common.a -Wl,--wrap=aws_condition_variable_wait_for -lpthread -ldl -lm -lrt */
#include <aws/common/clock.h>
#include <aws/common/common.h>
#include <aws/common/condition_variable.h>
#include <aws/common/task_scheduler.h>
#include <aws/common/thread.h>
#include <aws/common/thread_scheduler.h>
#include <stdatomic.h>
#include <stdio.h>
static atomic_int s_armed, s_about_to_wait;
int __real_aws_condition_variable_wait_for(struct aws_condition_variable *c, struct aws_mutex *m, int64_t t);
int __wrap_aws_condition_variable_wait_for(struct aws_condition_variable *c, struct aws_mutex *m, int64_t t) {
    if (atomic_load(&s_armed)) {
        atomic_store(&s_armed, 0);
        atomic_store(&s_about_to_wait, 1);
        aws_thread_current_sleep(200000000); /* the scheduler thread is preempted between its predicate check and the wait */
        if (t > 5000000000LL) {
            t = 5000000000LL; /* cap so that the replay ends; really 30 s or until the next timer */
        }
    }
    return __real_aws_condition_variable_wait_for(c, m, t);
}
static void s_fn(struct aws_task *t, void *a, enum aws_task_status s) { (void)t; (void)a; (void)s; }
int main(void) {
    aws_common_library_init(aws_default_allocator());
    struct aws_thread_scheduler *ts = aws_thread_scheduler_new(aws_default_allocator(), NULL);
    aws_thread_current_sleep(100000000);
    struct aws_task t;
    aws_task_init(&t, s_fn, NULL, "t");
    atomic_store(&s_armed, 1);
    aws_thread_scheduler_schedule_now(ts, &t); /* wakes the thread; it runs t and comes back to wait */
    while (!atomic_load(&s_about_to_wait)) {
        aws_thread_current_sleep(1000000);
    }
    uint64_t a, b;
    aws_high_res_clock_get_ticks(&a);
    aws_thread_scheduler_release(ts);
    aws_high_res_clock_get_ticks(&b);
    double secs = (double)(b - a) / 1e9;
    printf("release took %.2f s\n", secs);
    int ok = secs < 2.0;
    printf(ok ? "PASS\n" : "FAIL: the exit request was lost, release waited for the scheduler thread's whole timed wait\n");
    aws_common_library_clean_up();
    return ok ? 0 : 1;
}
