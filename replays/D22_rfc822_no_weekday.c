/* UNMODIFIED library: an RFC 822 date without the (optional) week day - "15 Oct 2020 10:00:00 GMT" - loses the first
 * digit of the day: the digit that tells the parser there is no week day switches the state but is not accumulated.
 * build: gcc -O1 -g -I/repo/include -I/repo/_build/generated/include D22_rfc822_no_weekday.c /repo/_build/libaws-c-common.a -lpthread -ldl -lm -lrt */
#include <aws/common/byte_buf.h>
#include <aws/common/date_time.h>
#include <stdio.h>

static int check(const char *with, const char *without) {
    struct aws_date_time a, b;
    struct aws_byte_cursor ca = aws_byte_cursor_from_c_str(with), cb = aws_byte_cursor_from_c_str(without);
    int ra = aws_date_time_init_from_str_cursor(&a, &ca, AWS_DATE_FORMAT_RFC822);
    int rb = aws_date_time_init_from_str_cursor(&b, &cb, AWS_DATE_FORMAT_RFC822);
    printf("%-32s -> rc=%d %lld\n%-32s -> rc=%d %lld\n", with, ra, (long long)a.timestamp, without, rb, (long long)b.timestamp);
    if (ra != 0 || rb != 0 || a.timestamp != b.timestamp) {
        printf("  VIOLATION: the same date with and without week day gives different instants (day %d vs %d)\n", aws_date_time_month_day(&a, false), aws_date_time_month_day(&b, false));
        return 1;
    }
    return 0;
}

int main(void) {
    int f = 0;
    f |= check("Thu, 15 Oct 2020 10:00:00 GMT", "15 Oct 2020 10:00:00 GMT");
    f |= check("Fri, 01 Jan 2021 00:00:00 GMT", "1 Jan 2021 00:00:00 GMT"); /* day 0 -> 31 Dec 2020 */
    f |= check("Sat, 31 Dec 2022 23:59:59 +0100", "31 Dec 2022 23:59:59 +0100");
    printf(f ? "FAIL\n" : "PASS\n");
    return f;
}
