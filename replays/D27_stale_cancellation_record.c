/* Observation on the UNMODIFIED library: a cancel request that arrives while the task is executing (so: too late)
 * is kept as a record; if the owner re-schedules the task after it completed and the record is processed while the
 * task sits in the hand-over queue, the scheduler thread unlinks it from that queue WITHOUT the mutex and delivers
 * the second scheduling with CANCELED status although nobody cancelled it. */
#include <aws/common/common.h>
#include <aws/common/mutex.h>
#include <aws/common/task_scheduler.h>
#include <aws/common/thread.h>
#include <aws/common/thread_scheduler.h>
#include <pthread.h>
#include <semaphore.h>
#include <stdio.h>
#include <unistd.h>

int __real_aws_mutex_unlock(struct aws_mutex *m);
static pthread_t s_main;
static volatile int s_armed; /* number of scheduler-thread unlocks to let through before pausing */
static sem_t s_paused, s_resume, s_started, s_go;

int __wrap_aws_mutex_unlock(struct aws_mutex *m) {
    int rc = __real_aws_mutex_unlock(m);
    if (!pthread_equal(pthread_self(), s_main) && s_armed > 0) {
        if (--s_armed == 0) {
            sem_post(&s_paused);
            sem_wait(&s_resume);
        }
    }
    return rc;
}

static volatile int s_runs, s_cancels;
static void s_fn(struct aws_task *t, void *arg, enum aws_task_status st) {
    (void)t; (void)arg;
    int first = (s_runs + s_cancels) == 0;
    if (st == AWS_TASK_STATUS_RUN_READY) s_runs++; else s_cancels++;
    if (first) { sem_post(&s_started); sem_wait(&s_go); }
}

int main(void) {
    s_main = pthread_self();
    sem_init(&s_paused, 0, 0); sem_init(&s_resume, 0, 0); sem_init(&s_started, 0, 0); sem_init(&s_go, 0, 0);
    struct aws_allocator *a = aws_default_allocator();
    aws_common_library_init(a);
    struct aws_thread_scheduler *s = aws_thread_scheduler_new(a, NULL);
    struct aws_task t;
    aws_task_init(&t, s_fn, NULL, "t");
    aws_thread_scheduler_schedule_now(s, &t);
    sem_wait(&s_started);                 /* t is executing */
    aws_thread_scheduler_cancel_task(s, &t); /* too late: not pending any more */
    s_armed = 2;                          /* unlock after the wait, then unlock after the queue swap -> pause */
    sem_post(&s_go);                      /* first execution completes */
    sem_wait(&s_paused);                  /* scheduler thread holds the stale record, has not processed it yet */
    aws_thread_scheduler_schedule_now(s, &t); /* legitimate re-use of the completed task */
    sem_post(&s_resume);
    usleep(300 * 1000);
    printf("before release: run=%d cancelled=%d (second scheduling expected to RUN: run=2 cancelled=0)\n", s_runs, s_cancels);
    aws_thread_scheduler_release(s);
    printf("after release:  run=%d cancelled=%d\n", s_runs, s_cancels);
    aws_common_library_clean_up();
    return !(s_runs == 2 && s_cancels == 0);
}
