#define AWS_COMMON_MATH_GCC_OVERFLOW_INL
#include <aws/common/math.h>
#include <aws/common/math.gcc_x64_asm.inl>
#include <stdio.h>
#include <inttypes.h>
int main(void) {
    uint64_t r = aws_add_u64_saturating(1, UINT64_MAX);
    printf("aws_add_u64_saturating(1, UINT64_MAX) = 0x%" PRIx64 "\n", r);
    return r != UINT64_MAX;
}
