/* D26 (C13): a URI with an empty path whose query contains '/' - "http://host?a=/b" - is split at the '/' instead of at the
 * earlier '?': authority "host?a=", path "/b", no query.  RFC 3986 3.2: the authority ends at the next '/', '?' or '#'.
 * build: gcc -I/repo/include -I/repo/_build/generated/include D26_uri_query_with_slash_empty_path.c /repo/_build/libaws-c-common.a -lpthread -ldl -lm -lrt */
#include <aws/common/uri.h>
#include <stdio.h>
#include <string.h>
static int eq(struct aws_byte_cursor c, const char *s) { return c.len == strlen(s) && (c.len == 0 || memcmp(c.ptr, s, c.len) == 0); }
int main(void) {
    struct aws_allocator *a = aws_default_allocator();
    struct aws_uri uri;
    struct aws_byte_cursor text = aws_byte_cursor_from_c_str("http://host?a=/b");
    if (aws_uri_init_parse(&uri, a, &text)) { printf("FAIL: parse error\n"); return 1; }
    printf("authority=%.*s host=%.*s path=%.*s query=%.*s\n", (int)uri.authority.len, uri.authority.ptr, (int)uri.host_name.len, uri.host_name.ptr,
           (int)uri.path.len, uri.path.ptr, (int)uri.query_string.len, uri.query_string.ptr);
    int ok = eq(uri.authority, "host") && eq(uri.host_name, "host") && uri.path.len <= 1 && eq(uri.query_string, "a=/b");
    /* the builder produces this very text from (scheme http, host "host", query "a=/b") */
    struct aws_uri built;
    struct aws_uri_builder_options o; memset(&o, 0, sizeof(o));
    o.scheme = aws_byte_cursor_from_c_str("http"); o.host_name = aws_byte_cursor_from_c_str("host"); o.query_string = aws_byte_cursor_from_c_str("a=/b");
    if (aws_uri_init_from_builder_options(&built, a, &o) == 0) {
        printf("built=%.*s -> host=%.*s query=%.*s\n", (int)built.uri_str.len, built.uri_str.buffer, (int)built.host_name.len, built.host_name.ptr, (int)built.query_string.len, built.query_string.ptr);
        ok = ok && eq(built.host_name, "host") && eq(built.query_string, "a=/b");
        aws_uri_clean_up(&built);
    } else { printf("builder failed\n"); ok = 0; }
    aws_uri_clean_up(&uri);
    printf(ok ? "PASS\n" : "FAIL\n");
    return ok ? 0 : 1;
}
