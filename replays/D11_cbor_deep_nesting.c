#include <aws/common/cbor.h>
#include <stdio.h>
#include <stdlib.h>
#include <string.h>
int main(int argc,char**argv){ struct aws_allocator*al=aws_default_allocator(); aws_common_library_init(al);
 size_t n=strtoul(argv[1],0,10); uint8_t *b=malloc(n+1); memset(b,0x81,n); b[n]=0;
 struct aws_cbor_decoder*d=aws_cbor_decoder_new(al,aws_byte_cursor_from_array(b,n+1));
 int r=aws_cbor_decoder_consume_next_whole_data_item(d); printf("n=%zu rc=%d remaining=%zu\n",n,r,aws_cbor_decoder_get_remaining_length(d)); return 0;}
