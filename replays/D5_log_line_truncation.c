#include <aws/common/logging.h>
#include <aws/common/log_formatter.h>
#include <aws/common/date_time.h>
#include <stdio.h>
#include <string.h>
#include <stdarg.h>
static int call(struct aws_logging_standard_formatting_data *d, ...) { va_list a; va_start(a,d); int r = aws_format_standard_log_line(d,a); va_end(a); return r; }
int main(void){
  aws_common_library_init(aws_default_allocator());
  char buf[128]; memset(buf,'#',sizeof buf);
  char big[400]; memset(big,'x',sizeof big); big[399]=0;
  struct aws_logging_standard_formatting_data d = {.log_line_buffer=buf,.total_length=100,.level=AWS_LL_INFO,.subject_name="subj",.format="%s",.date_format=AWS_DATE_FORMAT_ISO_8601,.allocator=aws_default_allocator(),.amount_written=0};
  int r = call(&d, big);
  printf("r=%d amount_written=%zu\n", r, d.amount_written);
  printf("last 4 bytes: %02x %02x %02x %02x ; byte after: %02x\n", (unsigned char)buf[d.amount_written-4],(unsigned char)buf[d.amount_written-3],(unsigned char)buf[d.amount_written-2],(unsigned char)buf[d.amount_written-1],(unsigned char)buf[d.amount_written]);
  int nul=0; for(size_t i=0;i<d.amount_written;i++) if(!buf[i]) nul++;
  printf("NULs inside line=%d ends_with_newline=%d\n", nul, buf[d.amount_written-1]=='\n');
  return 0;}
