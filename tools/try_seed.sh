#!/bin/bash
# usage: tools/try_seed.sh <patch.diff> <property id>...   - applies the patch to /repo, runs the checks, reverts
p=$1; shift
cd /repo || exit 2
if ! git apply --check "$p" 2>/dev/null; then echo "PATCH DOES NOT APPLY: $p"; exit 3; fi
git apply "$p"
for id in "$@"; do
  (cd /verif && ./check $id --no-mutants 2>&1 | grep -E "^(C[0-9]+ \[|VIOLATION|  rule=|ANALYSIS-BROKEN|KNOWN)" | head -8; echo "exit=${PIPESTATUS[0]}")
done
git -C /repo checkout -- .
