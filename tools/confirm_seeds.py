#!/usr/bin/env python3
"""Confirms the seeded changes produced by the sub-agents (one scratch worktree of /repo each, removed afterwards):
applies to HEAD, builds, the pinned test suite still passes, the demonstration shows the breakage on the changed tree and
not on the unchanged one; then runs the property's check against the changed worktree (VERIF_REPO) and records which rule
reports it.  Writes /verif/seeded/<id>/<n>/{patch.diff, demo*, README.md, meta.json}.
usage: confirm_seeds.py <src root with <id>-out/<n>/> [ids...]"""
import json, os, re, shutil, subprocess, sys, concurrent.futures as cf

SRC = sys.argv[1]
IDS = sys.argv[2:] or ["C%02d" % i for i in range(1, 21)]
V = "/verif"
WT = "/tmp/cf"
OFFSET = int(os.environ.get("SEED_OFFSET", "0"))  # later rounds are stored as seeded/<id>/<n + offset>


def sh(cmd, cwd=None, timeout=1800, env=None):
    try:
        p = subprocess.run(cmd, shell=True, cwd=cwd, stdout=subprocess.PIPE, stderr=subprocess.STDOUT, timeout=timeout, env=env)
        return p.returncode, p.stdout.decode("utf-8", "replace")
    except subprocess.TimeoutExpired as ex:
        return 124, "TIMEOUT\n" + (ex.stdout or b"").decode("utf-8", "replace")


def demo_cmd(readme, wt, d):
    cmd = None
    lines = readme.split("\n")
    for i, ln in enumerate(lines):
        if "gcc " in ln and "demo.c" in " ".join(lines[i:i + 3]):
            parts = []
            j = i
            while j < len(lines):
                s = lines[j].rstrip()
                parts.append(s.rstrip("\\").strip())
                if not s.endswith("\\"):
                    break
                j += 1
            cmd = " ".join(parts)
            cmd = cmd[cmd.index("gcc "):]
            cmd = re.sub(r"&&.*$", "", cmd)
            cmd = re.sub(r";.*$", "", cmd)
            cmd = re.sub(r"\s+-o\s+\S+", "", cmd).strip().strip("`")
            break
    if not cmd or "demo.c" not in cmd:
        cmd = "gcc -O1 -g -I%s/include -I%s/_build/generated/include demo.c %s/_build/libaws-c-common.a -lpthread -ldl -lm -lrt" % (wt, wt, wt)
    return cmd


def one(job):
    pid, n = job
    src = os.path.join(SRC, "%s-out" % pid, str(n))
    meta = {"property": pid, "seed": n + OFFSET, "round": 1 + OFFSET // 3, "source": "fresh sub-agent given only the property text and a scratch worktree"}
    if not os.path.exists(os.path.join(src, "patch.diff")):
        return pid, n, None
    wt = os.path.join(WT, "%s_%d" % (pid, n))
    sh("git -C /repo worktree remove --force %s" % wt)
    rc, out = sh("git -C /repo worktree add --detach %s HEAD" % wt)
    try:
        rc, out = sh("git apply %s" % os.path.join(src, "patch.diff"), cwd=wt)
        meta["applies_to_head"] = rc == 0
        if rc != 0:
            rc, out = sh("git apply --3way %s" % os.path.join(src, "patch.diff"), cwd=wt)
            meta["applies_with_3way"] = rc == 0
            if rc != 0:
                meta["confirmed"] = False
                meta["why"] = "patch does not apply to the current /repo HEAD (made against an earlier commit): " + out[-300:]
                return pid, n, meta
        rc, out = sh("cmake -G Ninja -B _build -DCMAKE_BUILD_TYPE=RelWithDebInfo -DCMAKE_C_FLAGS=-Wno-error >/dev/null && cmake --build _build -j4", cwd=wt)
        meta["builds"] = rc == 0
        if rc != 0:
            meta["confirmed"] = False
            meta["why"] = "does not build: " + out[-400:]
            return pid, n, meta
        rc, out = sh("ctest --test-dir _build -j4 --timeout 900", cwd=wt)
        m = re.search(r"(\d+)% tests passed, (\d+) tests failed out of (\d+)", out)
        meta["tests"] = m.group(0) if m else out[-200:]
        meta["tests_pass"] = rc == 0
        if rc != 0:
            meta["tests_failed"] = re.findall(r"^\s*\d+ - (\S+) \(", out, re.M)[:10]
        readme = open(os.path.join(src, "README.md")).read() if os.path.exists(os.path.join(src, "README.md")) else ""
        d = os.path.join(wt, "_seed")
        shutil.copytree(src, d)
        base = demo_cmd(readme, "@@", d)
        res = {}
        base = re.sub(r"(?<![\w/])\d/demo\.c", "demo.c", base)
        base = re.sub(r"/tmp/wt\d?/%s-out/\d/demo\.c" % pid, "demo.c", base)
        has_sh = os.path.exists(os.path.join(d, "demo.sh"))
        for tag, root in (("changed", wt), ("unchanged", "/repo")):
            if has_sh:
                txt = re.sub(r"/tmp/wt\d?/%s(?=[/ \n\"}])" % pid, root, open(os.path.join(d, "demo.sh")).read())
                open(os.path.join(d, "demo_%s.sh" % tag), "w").write(txt)
                rc2, o2 = sh("WT=%s sh ./demo_%s.sh" % (root, tag), cwd=d, timeout=600)
                res[tag] = {"compile": True, "exit": rc2, "tail": o2[-500:], "via": "demo.sh"}
                continue
            cmd = re.sub(r"/tmp/wt\d?/%s(?=[/ ])" % pid, root, base).replace("@@", root).replace("${WT}", root).replace("$WT", root) + " -o demo_%s" % tag
            rc1, o1 = sh(cmd, cwd=d, timeout=300)
            if rc1 != 0:
                res[tag] = {"compile": False, "out": o1[-300:]}
                continue
            rc2, o2 = sh("./demo_%s" % tag, cwd=d, timeout=300)
            res[tag] = {"compile": True, "exit": rc2, "tail": o2[-500:]}
        meta["demo"] = res
        ch, un = res.get("changed", {}), res.get("unchanged", {})
        meta["demo_shows_breakage"] = bool(ch.get("compile") and un.get("compile") and (ch.get("exit") != un.get("exit") or ch.get("tail") != un.get("tail")) and un.get("exit") == 0)
        meta["confirmed"] = bool(meta["tests_pass"] and meta["demo_shows_breakage"])
        # the property's check against the changed tree
        env = dict(os.environ, VERIF_REPO=wt, VERIF_SCRATCH_OUT=os.path.join(wt, "_verif_out"), VERIF_JOBS="1")
        rc3, o3 = sh("./check %s --no-mutants" % pid, cwd=V, timeout=1500, env=env)
        rules = sorted(set(re.findall(r"rule=(\S+) instance=(\S+)", o3)))
        meta["check"] = {"exit": rc3, "reported_by": ["%s %s" % r for r in rules][:8]}
        meta["caught"] = rc3 == 1 and bool(rules)
        return pid, n, meta
    finally:
        # keep the artefacts, drop the worktree and its build
        dst = os.path.join(V, "seeded", pid, str(n + OFFSET))
        os.makedirs(dst, exist_ok=True)
        for fn in os.listdir(src):
            if os.path.isfile(os.path.join(src, fn)) and os.path.getsize(os.path.join(src, fn)) < 400000:
                shutil.copy(os.path.join(src, fn), os.path.join(dst, fn))
        json.dump(meta, open(os.path.join(dst, "meta.json"), "w"), indent=1)
        sh("git -C /repo worktree remove --force %s" % wt)
        shutil.rmtree(wt, ignore_errors=True)


os.makedirs(WT, exist_ok=True)
jobs = [(p.split(":")[0], n) for p in IDS for n in (1, 2, 3) if ":" not in p or str(n) in p.split(":")[1]]
with cf.ThreadPoolExecutor(max_workers=4) as ex:
    for pid, n, meta in ex.map(one, jobs):
        if meta is None:
            continue
        print(pid, n, "confirmed" if meta.get("confirmed") else "NOT-CONFIRMED", "caught" if meta.get("caught") else "missed", (meta.get("check") or {}).get("reported_by", [])[:2], meta.get("why", "")[:100], flush=True)
sh("git -C /repo worktree prune")
