#!/usr/bin/env python3
"""regression over the stored seeded changes: apply each seeded/<id>/<n>/patch.diff to a scratch worktree of /repo HEAD and
run the property's check against it (no build, no tests - those were confirmed when the change was recorded).
usage: tools/recheck_seeds.py [ids...]   prints one line per change; exit 1 if a recorded-as-caught change is missed"""
import sys, os, json, subprocess, shutil, concurrent.futures as cf
V = "/verif"
WT = "/tmp/rs"
ids = sys.argv[1:] or sorted(os.listdir(os.path.join(V, "seeded")))


def sh(cmd, cwd=None, env=None, timeout=3000):
    p = subprocess.run(cmd, shell=True, cwd=cwd, env=env, stdout=subprocess.PIPE, stderr=subprocess.STDOUT, text=True, timeout=timeout)
    return p.returncode, p.stdout


def one(job):
    pid, n = job
    d = os.path.join(V, "seeded", pid, n)
    wt = os.path.join(WT, "%s_%s" % (pid, n))
    sh("git -C /repo worktree remove --force %s" % wt)
    sh("git -C /repo worktree add --detach %s HEAD" % wt)
    try:
        rc, out = sh("git apply %s" % os.path.join(d, "patch.diff"), cwd=wt)
        if rc != 0:
            return pid, n, "does-not-apply", []
        env = dict(os.environ, VERIF_REPO=wt, VERIF_SCRATCH_OUT=os.path.join(wt, "_verif_out"), VERIF_JOBS="1")
        rc, out = sh("./check %s --no-mutants" % pid, cwd=V, env=env)
        import re
        rules = sorted(set(re.findall(r"rule=(\S+) instance=(\S+)", out)))
        mp = os.path.join(d, "meta.json")
        if os.path.exists(mp) and os.environ.get("UPDATE_META"):
            # the recorded verdict follows the current checks; what the checks said when the change was first confirmed is kept
            m = json.load(open(mp))
            if "first_pass" not in m:
                m["first_pass"] = {"caught": m.get("caught"), "reported_by": (m.get("check") or {}).get("reported_by", [])}
            m["check"] = {"exit": rc, "reported_by": ["%s %s" % r for r in rules][:8]}
            m["caught"] = rc == 1 and bool(rules)
            json.dump(m, open(mp, "w"), indent=1)
        return pid, n, ("caught" if rc == 1 and rules else "MISSED(exit %d)" % rc), ["%s %s" % r for r in rules][:2]
    finally:
        sh("git -C /repo worktree remove --force %s" % wt)
        shutil.rmtree(wt, ignore_errors=True)


os.makedirs(WT, exist_ok=True)
jobs = [(p, n) for p in ids for n in sorted(os.listdir(os.path.join(V, "seeded", p))) if os.path.exists(os.path.join(V, "seeded", p, n, "patch.diff"))]
bad = 0
with cf.ThreadPoolExecutor(max_workers=int(os.environ.get("JOBS", "6"))) as ex:
    for pid, n, res, rules in ex.map(one, jobs):
        print(pid, n, res, rules, flush=True)
        if res != "caught":
            bad += 1
sh("git -C /repo worktree prune")
print("%d changes, %d not caught" % (len(jobs), bad))
sys.exit(1 if bad else 0)
