#!/usr/bin/env python3
"""Regenerates MANIFEST.json from the table below (claimed properties) and properties.jsonl."""
import json, os
V = os.path.dirname(os.path.dirname(os.path.abspath(__file__)))
CLAIMED = {
 "C08": ("Protocol-shape static analysis of source/thread_scheduler.c on every CFG path: lockset on the hand-over queues, thread confinement of the inner scheduler, notify-after-enqueue and predicate/notifier agreement, shutdown order, drain of both queues before the release, cancellation-record pairing. Schedule-independent necessary conditions; interleavings are not explored.",
         "lockset / typestate dataflow + dominator rules over clang CFGs"),
 "C14": ("Static rules over the whole library: the level gate of every AWS_LOGF expansion and of aws_logger_get_conditional admits exactly level <= active; the formatted line is destroyed exactly once on every path (pipeline, foreground, background); lockset + notify + exit-only-when-empty-and-finished + shutdown order for the background channel. Decides the protocol shape and ownership discipline, not per-thread ordering under schedules.",
         "guard-dominance, ownership typestate and lockset dataflow over clang CFGs"),
 "C20": ("Static protocol rules over source/posix/thread.c and source/thread_shared.c: lockset on the managed-thread globals, no join / re-lock under the lock, the pending-join hand-off (swap-out then self-enqueue in one critical section, predecessor joined), join-all loop shape (done iff count==0 under the lock), per-wrapper join order and use-after-destroy, thread entry (function exactly once, at-exit chain read/release/invoke order, hand-over last), LIFO registration, launch count roll-back. Schedule-independent necessary conditions only.",
         "lockset / typestate (with correlated-branch pruning) / dominance rules over clang CFGs"),
 "C17": ("Static rules over source/memtrace.c: order and pairing of track/untrack around the wrapped allocator in all four vtable functions, amount added == size stored, amount subtracted == stored size read before destroy and followed by removal, lockset on both tables (unlock-only-when-held, no lock at exit), level gating of every tracer field, dump reaches no accounting mutation. Decides pairing and lock discipline, not numeric totals over histories.",
         "ordering/pairing typestate, lockset and guard-dominance rules over clang CFGs"),
 "C03": ("Static rules over source/allocator_sba.c: lockset on bin state and page counts through the allocator's lock function pointers (requires-lock helpers get the lock of the same bin from every call site and never drop it), alloc_count pairing per returned chunk / per free, exact page-release condition and the purge/unlink/tag-erase steps before it, small/large classification (tags, s_max_bin_size, size-class table, 16-byte alignment of header and classes), realloc copy bound and order, calloc zero length, destroy frees every page. Decides protocol and pairing, not disjointness over histories.",
         "lockset with interprocedural lock context, pairing typestate, guard-dominance and constant-table rules over clang CFGs"),
 "C01": ("Relational numeric abstract interpretation (polyhedral facts over symbolic lengths/capacities, no-wrap side conditions, trace partitioning) of every function of source/byte_buf.c: every explicit memory access is inside its buffer/cursor/table/allocation for ALL lengths and capacities including SIZE_MAX-adjacent ones; stored lengths never wrap; len <= capacity at every return; no caller-visible field or byte changes on any failure path; appends write only past the entry length; growth copies before scrubbing/releasing; secure zero has its compiler barrier. Content equality is not decided.",
         "abstract interpretation (linear-constraint domain, Fourier-Motzkin entailment) + ordering rules over clang CFGs"),
 "C09": ("Array list: relational numeric abstract interpretation of every function in array_list.inl / array_list.c - all memory operations in bounds for all lengths/indices/element sizes, the five block moves equal their sequence specification, length*item_size <= current_size at every return, growth post-condition re-derived from ensure_capacity's body, no field change on failure, static-mode storage never reallocated, sliced swap covers every byte. Linked list: symbolic-heap abstract interpretation of every list operation over all alias configurations of the touched neighbourhood (adjacent/identical/cross-list nodes, empty lists), checking forward/backward sequence, detachment and frame. Histories of operations and element contents are not decided.",
         "abstract interpretation: linear-constraint numeric domain + symbolic-heap shape domain over clang CFG facts"),
 "C06": ("Static rules over source/priority_queue.c: who may reorder the element/handle arrays, s_swap rewrites both handles to their new slots (value-flow from slot pointer to stored index), a pushed handle is indexed before sifting, removal invalidates the handle of the departing element in the right order, stale-handle and empty guards dominate the removals, rollback typestate on push, comparator polarity; child/parent index formulas proved mutually inverse and the sliced swap proved in-bounds and covering by the numeric abstract interpreter. Heap order over histories is not decided.",
         "ordering/value-flow/typestate rules + numeric abstract interpretation over clang CFGs"),
 "C07": ("Static rules over source/task_scheduler.c (and the library-wide WHO query): only aws_task_run invokes task functions and only the run loop / cancel call it; scheduled cleared before invocation and nothing touched after; every move of a timed task is dominated by timestamp <= current_time of that task and the move loops are left only when nothing is due; private FIFO batch; schedule and cancel step order; has-tasks flag and time; plain timestamp comparator; plus the C06 handle rules the scheduler's cancel relies on. Exactly-once over re-entrant programs is not decided as a run-time fact.",
         "guard-dominance, ordering and typestate rules over clang CFGs"),
 "C18": ("Static rules over linked_hash_table.c and the three cache files: eviction victim provenance per policy (value-flow from the iteration list's front / back->prev of the same table to the removed key), eviction exactly on count > max after the insertion and under no other condition, vtable policy wiring (LRU lookups refresh, FIFO/LIFO do not), put's overwrite order and new-node fields, element destructor order and destructor wiring. Policy outcomes over histories are not decided.",
         "value-flow provenance, guard-dominance and ordering rules over clang CFGs + constant vtable tables"),
 "C02": ("Static rules over source/hash_table.c and lookup3.inl: who may call the destructors and under which guards, hand-over XOR destroy on removal, entry_count pairing, load check before admission, resize clamps max_load below size and mask = size-1 (numeric abstract interpretation), every hash code >= 1, NULL-safe equality tests identity first, no stale table state after a resize, every slot subscript below size (NUM with the table's validity predicate), iterator-delete limit adjustment decided as an exact two-sided numeric condition, alignment variants of the key hash agree. Map equivalence under collisions is not decided.",
         "guard-dominance, typestate and use-after-invalidate rules + numeric abstract interpretation over clang CFGs"),
 "C15": ("Numeric abstract interpretation of aws_ring_buffer_acquire / acquire_up_to: on each of the 10 success paths the vended range is inside the storage and inside the free region of the observed head/tail case (strictly before tail where required), the published head equals base+n, n is the requested size / within [minimum, requested]; plus single-writer discipline of head and tail, memory orders on tail, and release publishing the end of the released buffer before zeroing it. Interleavings are not explored.",
         "abstract interpretation (linear constraints over symbolic pointers) + who-may-store / memory-order tables"),
}
NA_DEFAULT = "check not built yet in this commit (see DESIGN.md section 9 build order)"
NA = {}
props = [json.loads(l) for l in open(os.path.join(V, "properties.jsonl"))]
checks = []
for p in props:
    i = p["id"]
    if i in CLAIMED:
        t, tech = CLAIMED[i]
        checks.append({"property_id": i, "quick_cmd": "./check %s --tier quick" % i, "thorough_cmd": "./check %s --tier thorough" % i,
                       "evidence_file": "/verif/evidence/%s.json" % i, "replay_cmd_template": "./check %s --replay {path}" % i, "engine": "awsfacts+sa",
                       "level_claimed": {"category": "other", "text": t, "design_ref": "DESIGN.md section 4, " + i},
                       "level_note": "Trusted: clang 14 front end and CFG builder, engine/awsfacts.cc, sa/*.py, the rule-instance tables in rules/%s.py; Linux/x86-64 build configuration only." % i,
                       "technique": "static analysis: " + tech})
m = {"version": 1, "setup_cmd": "make -C engine",
     "hooks": {"guard": "AWS_C_COMMON_VERIF", "enable": "none needed: the checks parse /repo's working tree; no hook is compiled in",
               "baseline_off_cmd": "cmake --build /repo/_build -j16 && ctest --test-dir /repo/_build -j8 --timeout 900", "source_commits": [], "add_only": True},
     "engines": [{"name": "awsfacts+sa", "path": "engine/awsfacts.cc, sa/", "serves_properties": sorted(CLAIMED),
                  "kind_free_text": "clang LibTooling fact extractor (per-function CFGs with canonical expression trees, layouts, constant tables) + Python rule engine (typestate/lockset dataflow, dominators, value flow, numeric entailment)"}],
     "checks": checks,
     "not_applicable": [{"property_id": p["id"], "reason": NA.get(p["id"], NA_DEFAULT)} for p in props if p["id"] not in CLAIMED],
     "notes": "Static analysis only; see DESIGN.md. Exit codes: 0 held / 1 violation (VIOLATION line) / 2 analysis broken."}
json.dump(m, open(os.path.join(V, "MANIFEST.json"), "w"), indent=1)
print("claimed:", sorted(CLAIMED))
