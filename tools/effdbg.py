#!/usr/bin/env python3
import sys
sys.path.insert(0, "/verif")
from sa.extract import Extraction, library_units
from sa.facts import Program
from sa.effects import Effects
ex = Extraction("/repo")
units = [u for u in library_units("/repo") if "external" not in u]
outs = ex.extract(units, "ship")
P = Program()
for r in units:
    P.add(outs[r])
P.add(ex.headers_unit("ship", None, None))
E = Effects(P)
for n in sys.argv[1:]:
    r = E.of(n)
    print(n, "TOP" if r is None else "")
    for it in sorted(r or [], key=repr):
        print("   ", it)
ex.close()
