#!/usr/bin/env python3
"""debug: print the (flattened) CFG of one function as the rules see it.
usage: cfgdump.py <repo-relative unit, e.g. source/byte_buf.c> <function> [repo root]"""
import sys
sys.path.insert(0, "/verif")
from sa.extract import Extraction
from sa.facts import Program
root = sys.argv[3] if len(sys.argv) > 3 else "/repo"
ex = Extraction(root)
try:
    outs = ex.extract([sys.argv[1]], "ship")
    P = Program()
    P.add(outs[sys.argv[1]])
    f = P.fn(sys.argv[2])
    print("transparent helpers:", sorted(P.transparent))
    for b in sorted(f.blocks.values(), key=lambda b: b.id):
        print("B%d term=%s succ=%s%s" % (b.id, b.term, b.succ, " NORETURN" if b.noreturn else ""))
        for e in b.elems:
            print("    [%s] %s  %s" % (e.get("id"), e.get("k"), f.show(e)[:150]))
        if b.cond is not None:
            print("    cond:", f.show(b.cond)[:150], "(id %s k %s)" % (b.cond.get("id"), b.cond.get("k")))
finally:
    ex.close()
