#!/usr/bin/env python3
"""False-alarm test: behaviour-preserving changes made by fresh sub-agents (refactorings a maintainer could commit; the
property still holds).  Each <root>/<id>-out/<n>/patch.diff is applied to a scratch worktree of /repo HEAD and the
property's check is run against it (VERIF_REPO): the expected verdict is exit 0.  With BUILD=1 the worktree is also built
and the pinned test suite run (used for the changes that raise an alarm, to make sure the change is what it claims).
Writes /verif/refactors/<id>/<n>/{patch.diff, README.md, meta.json}.
usage: check_refactors.py <root> [ids|id:n ...]"""
import json, os, re, shutil, subprocess, sys, concurrent.futures as cf

SRC = sys.argv[1]
IDS = sys.argv[2:] or ["C%02d" % i for i in range(1, 21)]
V = "/verif"
WT = "/tmp/rfc"
BUILD = bool(os.environ.get("BUILD"))
OFFSET = int(os.environ.get("RF_OFFSET", "0"))  # later rounds are stored as refactors/<id>/<n + offset>


def sh(cmd, cwd=None, timeout=3000, env=None):
    try:
        p = subprocess.run(cmd, shell=True, cwd=cwd, stdout=subprocess.PIPE, stderr=subprocess.STDOUT, timeout=timeout, env=env)
        return p.returncode, p.stdout.decode("utf-8", "replace")
    except subprocess.TimeoutExpired as ex:
        return 124, "TIMEOUT\n" + (ex.stdout or b"").decode("utf-8", "replace")


def one(job):
    pid, n = job
    src = os.path.join(SRC, "%s-out" % pid, str(n))
    if not os.path.exists(os.path.join(src, "patch.diff")):
        return pid, n, None
    meta = {"property": pid, "n": n + OFFSET, "round": 1 + OFFSET // 4, "kind": "behaviour-preserving change by a fresh sub-agent (property text + scratch worktree only)"}
    wt = os.path.join(WT, "%s_%d" % (pid, n))
    sh("git -C /repo worktree remove --force %s" % wt)
    sh("git -C /repo worktree add --detach %s HEAD" % wt)
    try:
        rc, out = sh("git apply %s" % os.path.join(src, "patch.diff"), cwd=wt)
        meta["applies_to_head"] = rc == 0
        if rc != 0:
            meta["why"] = out[-300:]
            return pid, n, meta
        if BUILD:
            rc, out = sh("cmake -G Ninja -B _build -DCMAKE_BUILD_TYPE=RelWithDebInfo -DCMAKE_C_FLAGS=-Wno-error >/dev/null && cmake --build _build -j4", cwd=wt)
            meta["builds"] = rc == 0
            if rc == 0:
                rc, out = sh("ctest --test-dir _build -j4 --timeout 900", cwd=wt)
                m = re.search(r"(\d+)% tests passed, (\d+) tests failed out of (\d+)", out)
                meta["tests"] = m.group(0) if m else out[-200:]
                meta["tests_pass"] = rc == 0
        env = dict(os.environ, VERIF_REPO=wt, VERIF_SCRATCH_OUT=os.path.join(wt, "_verif_out"), VERIF_JOBS="1")
        rc3, o3 = sh("./check %s --no-mutants" % pid, cwd=V, timeout=2400, env=env)
        rules = sorted(set(re.findall(r"rule=(\S+) instance=(\S+)", o3)))
        broken = re.findall(r"ANALYSIS-BROKEN[^\n]*", o3)
        meta["check"] = {"exit": rc3, "alarms": ["%s %s" % r for r in rules][:8], "analysis_broken": [b[:300] for b in broken][:4]}
        meta["silent"] = rc3 == 0
        return pid, n, meta
    finally:
        dst = os.path.join(V, "refactors", pid, str(n + OFFSET))
        os.makedirs(dst, exist_ok=True)
        for fn in ("patch.diff", "README.md"):
            if os.path.exists(os.path.join(src, fn)):
                shutil.copy(os.path.join(src, fn), os.path.join(dst, fn))
        old = {}
        if os.path.exists(os.path.join(dst, "meta.json")):
            old = json.load(open(os.path.join(dst, "meta.json")))
        if "first_pass" in old:
            meta["first_pass"] = old["first_pass"]
        elif old.get("check") and not old.get("silent") and meta.get("silent"):
            meta["first_pass"] = old["check"]
        for k in ("builds", "tests", "tests_pass", "verdict"):
            if k in old and k not in meta:
                meta[k] = old[k]
        json.dump(meta, open(os.path.join(dst, "meta.json"), "w"), indent=1)
        sh("git -C /repo worktree remove --force %s" % wt)
        shutil.rmtree(wt, ignore_errors=True)


os.makedirs(WT, exist_ok=True)
jobs = [(p.split(":")[0], n) for p in IDS for n in (1, 2, 3, 4) if ":" not in p or str(n) in p.split(":")[1]]
bad = 0
with cf.ThreadPoolExecutor(max_workers=int(os.environ.get("JOBS", "6"))) as ex:
    for pid, n, meta in ex.map(one, jobs):
        if meta is None:
            continue
        ok = meta.get("silent")
        bad += 0 if ok else 1
        print(pid, n, "silent" if ok else "ALARM(exit %s)" % (meta.get("check") or {}).get("exit"), (meta.get("check") or {}).get("alarms", [])[:3], ((meta.get("check") or {}).get("analysis_broken") or [""])[0][:160], meta.get("tests", ""), meta.get("why", "")[:80], flush=True)
sh("git -C /repo worktree prune")
print("%d not silent" % bad)
