#!/usr/bin/env python3
"""debug: print NUM states at accesses of one function.  usage: numdbg.py <rules module> <function> [substr of site]"""
import sys, importlib
sys.path.insert(0, "/verif")
from sa.extract import Extraction, library_units
from sa.facts import Program
from sa.num import Num
from sa.awslib import in_bounds
from sa.bounds import access_sites, addr_size
mod = importlib.import_module("rules." + sys.argv[1])
ex = Extraction("/repo")
units = [u for u in library_units("/repo") if "external" not in u]
import os
rep = dict(x.split("=") for x in os.environ.get("REPLACE", "").split(",") if x)
units2 = [rep.get(u, u) for u in units]
outs = ex.extract(units2, "ship")
P = Program()
for r in units2:
    P.add(outs[r])
P.add(ex.headers_unit("ship", None, None))
f = P.fn(sys.argv[2])
hooks = getattr(mod, "ParserHooks", None) or getattr(mod, "Hooks")
num = Num(f, P, hooks(), max_paths=20000)
num.track_progress = True
num.keep_progress_fail = True
sites = access_sites(f)
pat = sys.argv[3] if len(sys.argv) > 3 else ""
states = num.states_at({s[0] for s in sites} | {-1})
for eid, kind, n in sites:
    if pat not in f.show(n):
        continue
    for st in states.get(eid, []):
        s2 = st.copy()
        for (D, sz, mode) in addr_size(num, s2, kind, n):
            r = in_bounds(s2, D, sz)
            if r[0] != "ok":
                print("SITE", f.show(n), kind, r[0], r[1])
                print(" D=", D, "n=", sz)
                print(" trail", s2.trail)
                for k, v in sorted(s2.env.items()):
                    print("   env", k, "=", v)
                for ft in s2.facts:
                    print("   fact", ft, "<= 0")
                print("   extent", s2.extent)
                print("   cond", {k: v for k, v in s2.cond.items()})
                sys.exit(0)
print("all sites ok")
for h, res in getattr(num, "progress", {}).items():
    print("loop", h, "line", f.blocks[h].loc if hasattr(f.blocks[h], "loc") else "", "moved", sum(1 for r in res if r[0]), "stuck", sum(1 for r in res if not r[0]))
for h, s2 in getattr(num, "progress_fail", {}).items():
    print("STUCK at loop", h, "trail", s2.trail[-12:])
    print("  loop_atoms", s2.notes.get("loop_atoms", {}).get(h))
    for k, v in sorted(s2.env.items()):
        print("   env", k, "=", v)
    for ft in s2.facts[-40:]:
        print("   fact", ft, "<= 0")
    break
ex.close()
