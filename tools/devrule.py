#!/usr/bin/env python3
"""developer aid: run one rule module with a scope (`only`) and print the obligations; evidence goes to a scratch dir.
usage: tools/devrule.py <Cxx> <only,...> [REPLACE rel=path,...]"""
import sys, os, importlib, importlib.machinery, importlib.util
os.environ.setdefault("VERIF_SCRATCH_OUT", "/tmp/devrule_out")
sys.path.insert(0, "/verif")
loader = importlib.machinery.SourceFileLoader("chk", "/verif/check")
spec = importlib.util.spec_from_loader("chk", loader)
chk = importlib.util.module_from_spec(spec)
loader.exec_module(chk)
from sa.report import Report
pid = sys.argv[1]
only = set(sys.argv[2].split(",")) if len(sys.argv) > 2 and sys.argv[2] else None
rep = dict(x.split("=") for x in sys.argv[3].split(",")) if len(sys.argv) > 3 else None
R = Report(pid, "quick", "dev")
ctx = chk.Ctx(pid, "quick", R)
mod = importlib.import_module("rules." + pid)
try:
    mod.analyse(ctx, replace=rep, only=only)
finally:
    ctx.ex.close()
for o in R.obligations:
    print("OK  " if o["ok"] else "FAIL", o["rule"], o["instance"], "|", (o.get("detail") or "")[:300])
for m in R.broken_msgs:
    print("BROKEN", m)
