"""CFG utilities: feasible edges, dominators, post-dominators, a generic typestate (powerset) dataflow."""
from .facts import BRANCH_TERMS


def edges(fn, b):
    c = fn.__dict__.setdefault("_edges", {})
    if b not in c:
        c[b] = _edges(fn, b)
    return c[b]


def _edges(fn, b):
    """feasible out-edges of block b: list of (succ_id, cond_node_or_None, polarity)
    polarity: True/False for two-way branches, ('case', K) / ('default',) for switches, None otherwise.
    Edges whose condition is a compile-time constant of the other polarity are dropped (do{}while(0), assert strings)."""
    B = fn.blocks[b]
    out = []
    if B.noreturn:
        return out
    if B.term in BRANCH_TERMS and len(B.succ) == 2:
        c = B.cond
        cv = fn.is_const(c) if c is not None else None
        if c is None and B.term in ("for", "while"):
            cv = 1  # for(;;)
        for i, s in enumerate(B.succ):
            if s is None:
                continue
            pol = (i == 0)
            if cv is not None and bool(cv) != pol:
                continue
            out.append((s, c, pol))
        return out
    if B.term == "switch":
        seen_default = False
        for s in B.succ:
            if s is None:
                continue
            T = fn.blocks[s]
            if T.case is not None:
                out.append((s, B.cond, ("case", T.case)))
            elif T.default:
                out.append((s, B.cond, ("default",)))
                seen_default = True
            else:
                out.append((s, B.cond, ("default",)))
        return out
    for s in B.succ:
        if s is not None:
            out.append((s, None, None))
    return out


def reachable(fn, start=None):
    start = fn.entry if start is None else start
    seen = {start}
    st = [start]
    while st:
        b = st.pop()
        for s, _, _ in edges(fn, b):
            if s not in seen:
                seen.add(s)
                st.append(s)
    return seen


def rpo(fn):
    seen = set()
    order = []

    def dfs(b):
        stack = [(b, iter([s for s, _, _ in edges(fn, b)]))]
        seen.add(b)
        while stack:
            n, it = stack[-1]
            adv = False
            for s in it:
                if s not in seen:
                    seen.add(s)
                    stack.append((s, iter([x for x, _, _ in edges(fn, s)])))
                    adv = True
                    break
            if not adv:
                order.append(n)
                stack.pop()

    dfs(fn.entry)
    order.reverse()
    return order


def dominators(fn):
    """block-level dominator sets over feasible edges (memoised per function)"""
    if getattr(fn, "_dom", None) is not None:
        return fn._dom
    fn._dom = _dominators(fn)
    return fn._dom


def _dominators(fn):
    order = rpo(fn)
    preds = {b: [] for b in order}
    for b in order:
        for s, _, _ in edges(fn, b):
            if s in preds:
                preds[s].append(b)
    allb = set(order)
    dom = {b: set(allb) for b in order}
    dom[fn.entry] = {fn.entry}
    changed = True
    while changed:
        changed = False
        for b in order:
            if b == fn.entry:
                continue
            ps = [dom[p] for p in preds[b]]
            new = set.intersection(*ps) if ps else set()
            new = new | {b}
            if new != dom[b]:
                dom[b] = new
                changed = True
    return dom


def postdominators(fn, exits=None):
    if getattr(fn, "_pdom", None) is not None:
        return fn._pdom
    fn._pdom = _postdominators(fn)
    return fn._pdom


def _postdominators(fn, exits=None):
    """block-level post-dominator sets w.r.t. the exit block; blocks that cannot reach the exit
    (noreturn arms) post-dominate nothing and are ignored."""
    reach = reachable(fn)
    succs = {b: [s for s, _, _ in edges(fn, b) if s in reach] for b in reach}
    # blocks that can reach exit
    can = {fn.exit}
    changed = True
    while changed:
        changed = False
        for b in reach:
            if b not in can and any(s in can for s in succs[b]):
                can.add(b)
                changed = True
    nodes = [b for b in reach if b in can]
    pdom = {b: set(nodes) for b in nodes}
    pdom[fn.exit] = {fn.exit}
    changed = True
    while changed:
        changed = False
        for b in nodes:
            if b == fn.exit:
                continue
            ss = [pdom[s] for s in succs[b] if s in can]
            new = set.intersection(*ss) if ss else set()
            new = new | {b}
            if new != pdom[b]:
                pdom[b] = new
                changed = True
    return pdom


def ev_dominates(fn, a, b, dom=None):
    """event a dominates event b"""
    if a.blk == b.blk:
        return (a.idx, a.seq) < (b.idx, b.seq)
    dom = dom or dominators(fn)
    return b.blk in dom and a.blk in dom[b.blk]


def ev_postdominates(fn, a, b, pdom=None):
    """event a post-dominates event b (on all paths that reach the function exit)"""
    if a.blk == b.blk:
        return (a.idx, a.seq) > (b.idx, b.seq)
    pdom = pdom or postdominators(fn)
    if b.blk not in pdom:
        return True  # b cannot reach the exit at all
    return a.blk in pdom[b.blk]


class Typestate:
    """Forward powerset dataflow.  States are hashable user values.  transfer(event, state) returns a successor
    state or a *list* of states; edge(cond, polarity, state, fn, blk) likewise (default: identity).
    Records the set of states *before* each event and at function exit.
    correlate=True prunes infeasible combinations of branches on the same unmodified local condition
    (`if (!managed) ...; if (managed) ...`): the state is paired with the branch facts known so far."""

    def __init__(self, fn, init, transfer, edge=None, limit=50000, correlate=False):
        self.fn = fn
        self.transfer = transfer
        self.edge = edge
        self.before = {}  # event pos -> set of user states
        self.block_in = {b: set() for b in fn.blocks}
        self.exit_states = set()
        self.limit = limit
        self.overflow = False
        self.correlate = correlate
        self._stable = stable_locals(fn) if correlate else set()
        self._run(init)

    def _as_list(self, r):
        if r is None:
            return []
        if isinstance(r, list):
            return r
        return [r]

    def _cond_key(self, cond):
        """(key, negated, vars) for a trackable condition, else None"""
        fn = self.fn
        n = fn.d(cond)
        neg = False
        while n is not None and n["k"] == "un" and n["op"] == "!":
            neg = not neg
            n = fn.d(n["a"][0])
        while n is not None and n["k"] == "cast":
            n = fn.d(n["a"][0])
        if n is None:
            return None
        vs = set()
        for x in fn.walk(n, follow_refs=True):
            k = x["k"]
            if k == "var":
                if x["n"] not in self._stable:
                    return None
                vs.add(x["n"])
            elif k in ("int", "bin", "cast", "un"):
                if k == "un" and x["op"] in ("deref", "addr", "post++", "post--", "pre++", "pre--"):
                    return None
                if k == "bin" and x["op"] in ("=", "+=", "-=", "*=", "/=", "|=", "&=", "^=", "<<=", ">>=", ","):
                    return None
            else:
                return None
        if not vs:
            return None
        return (fn.show(n), neg, frozenset(vs))

    def _run(self, init):
        fn = self.fn
        evs = fn.events()
        work = [fn.entry]
        start = (init, frozenset())
        self.block_in[fn.entry] = {start}
        pending = {fn.entry: {start}}
        total = 0
        while work:
            b = work.pop()
            new_states = pending.pop(b, set())
            if not new_states:
                continue
            cur = set(new_states)
            for e in evs[b]:
                self.before.setdefault(e.pos, set()).update(u for u, _ in cur)
                killed = assigned_vars(fn, e) if self.correlate else ()
                nxt = set()
                for (u, facts) in cur:
                    if killed:
                        facts = frozenset(f for f in facts if not (f[2] & killed))
                    for u2 in self._as_list(self.transfer(e, u)):
                        nxt.add((u2, facts))
                cur = nxt
                if not cur:
                    break
            if not cur:
                continue
            if b == fn.exit:
                self.exit_states |= {u for u, _ in cur}
            for s_id, cond, pol in edges(fn, b):
                out = set()
                ck = self._cond_key(cond) if (self.correlate and cond is not None and isinstance(pol, bool)) else None
                for (u, facts) in cur:
                    if ck is not None:
                        key, neg, vs = ck
                        val = (pol != neg)
                        if (key, not val, vs) in facts:
                            continue  # contradicts an earlier decision on the same unmodified condition
                        facts2 = facts | {(key, val, vs)}
                    else:
                        facts2 = facts
                    if self.edge is not None and cond is not None:
                        for u2 in self._as_list(self.edge(cond, pol, u, fn, b)):
                            out.add((u2, facts2))
                    else:
                        out.add((u, facts2))
                fresh = out - self.block_in[s_id]
                if fresh:
                    self.block_in[s_id] |= fresh
                    pending.setdefault(s_id, set()).update(fresh)
                    total += len(fresh)
                    if total > self.limit:
                        self.overflow = True
                        return
                    if s_id not in work:
                        work.append(s_id)


def stable_locals(fn):
    """locals and parameters whose address is never taken (so only direct assignments change them)"""
    names = {p["n"] for p in fn.params}
    taken = set()
    for e in fn.all_events():
        if e.kind == "decl":
            for v in e.node["vars"]:
                names.add(v["n"])
        if e.kind == "access" and e.node["k"] == "var" and e.mode == "addr":
            taken.add(e.node["n"])
    return names - taken


def assigned_vars(fn, e):
    """names of variables (re)assigned by an event"""
    out = set()
    if e.kind == "access" and e.mode in ("w", "rw") and e.node["k"] == "var":
        out.add(e.node["n"])
    if e.kind == "decl":
        for v in e.node["vars"]:
            out.add(v["n"])
    if e.kind == "access" and e.mode in ("w", "rw") and e.node["k"] == "un" and e.node["op"] == "deref":
        # `*out = x` where out is the parameter of an expanded helper bound to `&v` (sa/flatten.py): an assignment of v
        from . import rules as _RU
        t = _RU.strip_addr(fn, e.node["a"][0])
        b = fn.d(e.node["a"][0])
        while b is not None and b["k"] == "cast":
            b = fn.d(b["a"][0])
        if t is not None and t["k"] == "var" and b is not None and b["k"] == "var" and t["n"] != b["n"]:
            out.add(t["n"])
    return out


def natural_loops(fn):
    """header block id -> set of body block ids (natural loops over feasible edges)"""
    dom = dominators(fn)
    preds = fn.preds()
    loops = {}
    for b in dom:
        for s_, _, _ in edges(fn, b):
            if s_ in dom.get(b, ()):
                body, st = {s_, b}, [b]
                while st:
                    x = st.pop()
                    if x == s_:
                        continue
                    for p_ in preds.get(x, []):
                        if p_ not in body and p_ in dom:
                            body.add(p_)
                            st.append(p_)
                loops.setdefault(s_, set()).update(body)
    return loops
