"""Runs the awsfacts extractor over /repo's current working tree (never cached across runs).

Flags are the real build's flags for the Linux/x86-64 configuration (verified against
`ninja -C /repo/_build -t compdb` while writing; the check does not depend on _build existing,
it generates its own config.h when /repo/_build/generated is absent)."""
import json
import os
import shutil
import subprocess
import sys
import tempfile
from concurrent.futures import ThreadPoolExecutor

VERIF = os.path.dirname(os.path.dirname(os.path.abspath(__file__)))
REPO = os.environ.get("VERIF_REPO", "/repo")
ENGINE = os.path.join(VERIF, "engine", "awsfacts")

CONFIG_H = """#ifndef AWS_COMMON_CONFIG_H
#define AWS_COMMON_CONFIG_H
#define AWS_HAVE_GCC_OVERFLOW_MATH_EXTENSIONS
#define AWS_HAVE_GCC_INLINE_ASM
#define AWS_HAVE_POSIX_LARGE_FILE_SUPPORT
#define AWS_HAVE_EXECINFO
#define AWS_HAVE_LINUX_IF_LINK_H
#define AWS_HAVE_AVX2_INTRINSICS
#define AWS_HAVE_AVX512_INTRINSICS
#define AWS_HAVE_MM256_EXTRACT_EPI64
#define AWS_HAVE_CLMUL
#define AWS_ARCH_INTEL
#define AWS_ARCH_INTEL_X64
#define AWS_USE_CPU_EXTENSIONS
#endif
"""

BASE_DEFS = [
    "-DAWS_AFFINITY_METHOD=AWS_AFFINITY_METHOD_PTHREAD_ATTR",
    "-DAWS_PTHREAD_GETNAME_TAKES_3ARGS",
    "-DAWS_PTHREAD_SETNAME_TAKES_2ARGS",
    "-DCJSON_HIDE_SYMBOLS",
    "-DHAVE_SYSCONF",
    "-DINTEL_NO_ITTNOTIFY_API",
    "-D_POSIX_C_SOURCE=200809L",
    "-D_XOPEN_SOURCE=500",
]

# configuration name -> extra flags
CONFIGS = {
    "ship": ["-DUSE_SIMD_ENCODING", "-DNDEBUG", "-O2"],
    "portable": ["-DNDEBUG", "-O2"],
    "contract": ["-DUSE_SIMD_ENCODING", "-UNDEBUG", "-DDEBUG_BUILD", "-O0"],
}

PER_FILE = {
    "source/arch/intel/encoding_avx2.c": ["-mavx2"],
    "source/arch/intel/cpuid.c": [],
}


def library_units(repo=None):
    """Every .c file the Linux build compiles into libaws-c-common (CMakeLists.txt globs)."""
    repo = repo or REPO
    units = []
    for d in ["source", "source/posix", "source/linux", "source/arch/intel", "source/arch/intel/asm", "source/external",
              "source/external/libcbor", "source/external/libcbor/cbor", "source/external/libcbor/cbor/internal"]:
        p = os.path.join(repo, d)
        if not os.path.isdir(p):
            continue
        for f in sorted(os.listdir(p)):
            if f.endswith(".c"):
                units.append(os.path.join(d, f))
    return units


def flags_for(rel, config, gen_inc, repo=None, pre_inc=None):
    repo = repo or REPO
    fl = list(BASE_DEFS) + CONFIGS[config]
    fl += ["-I" + d for d in (pre_inc or [])]
    fl += ["-I" + os.path.join(repo, "source/external/libcbor"), "-I" + os.path.join(repo, "include"), "-I" + gen_inc, "-std=gnu99"]
    fl += PER_FILE.get(rel, [])
    return fl


class Extraction:
    """A scratch directory of facts for one check run; removed by close()."""

    def __init__(self, repo=None):
        self.repo = repo or REPO
        self.dir = tempfile.mkdtemp(prefix="awsfacts-", dir=os.environ.get("VERIF_SCRATCH", "/tmp"))
        gen = os.path.join(self.repo, "_build", "generated", "include")
        if os.path.isfile(os.path.join(gen, "aws/common/config.h")):
            self.gen_inc = gen
            self.flag_source = "config.h from %s; flag table in sa/extract.py" % gen
        else:
            self.gen_inc = os.path.join(self.dir, "gen")
            os.makedirs(os.path.join(self.gen_inc, "aws/common"))
            with open(os.path.join(self.gen_inc, "aws/common/config.h"), "w") as f:
                f.write(CONFIG_H)
            self.flag_source = "generated config.h; flag table in sa/extract.py"
        if not os.path.isfile(ENGINE):
            print("ANALYSIS-BROKEN: extractor not built (run `make -C engine`)")
            sys.exit(2)
        self.units_done = []

    def _run(self, job):
        src, out, flags, main_only = job
        cmd = [ENGINE] + (["--main-only"] if main_only else []) + ["-o", out, src, "--"] + flags
        r = subprocess.run(cmd, stdout=subprocess.PIPE, stderr=subprocess.PIPE, text=True)
        return (src, out, r.returncode, r.stderr[-2000:])

    def extract(self, rels, config="ship", extra_flags=None, main_only=True, pre_inc=None):
        """rels: paths relative to the repo (or absolute synthetic sources). Returns {rel: path_to_json}."""
        jobs = []
        outs = {}
        cache = self.__dict__.setdefault("_cache", {})
        for rel in rels:
            src = rel if os.path.isabs(rel) else os.path.join(self.repo, rel)
            if not os.path.isfile(src):
                print("ANALYSIS-BROKEN: anchored source file missing: %s" % src)
                sys.exit(2)
            fl = flags_for(rel, config, self.gen_inc, self.repo, pre_inc) + (extra_flags or [])
            # (flag-specific outputs are also process-specific: self-check mutants are analysed in forked workers)
            tag = ("." + str(abs(hash(tuple(fl))) % 1000000) + "." + str(os.getpid())) if (pre_inc or extra_flags or os.path.isabs(rel)) else ""
            out = os.path.join(self.dir, config + "__" + rel.replace("/", "_") + (".main" if main_only else ".all") + tag + ".json")
            outs[rel] = out
            key = (src, config, tuple(fl), main_only)
            if key in cache:
                outs[rel] = cache[key]
                continue
            cache[key] = out
            jobs.append((src, out, fl, main_only))
        with ThreadPoolExecutor(max_workers=16) as ex:
            for src, out, rc, err in ex.map(self._run, jobs):
                if rc != 0 or not os.path.isfile(out):
                    print("ANALYSIS-BROKEN: extractor failed on %s (rc=%s)\n%s" % (src, rc, err))
                    sys.exit(2)
                self.units_done.append(src)
        return outs

    def headers_unit(self, config="ship", extra_flags=None, pre_inc=None):
        """A synthetic unit that includes every library header, so inline (.inl) functions are emitted once."""
        tag = ("_" + str(abs(hash(tuple(pre_inc))) % 100000)) if pre_inc else ""
        src = os.path.join(self.dir, "all_headers_%s%s.c" % (config, tag))
        inc = os.path.join(self.repo, "include/aws/common")
        skip = {"stdbool.h", "stdint.h", "config.h.in"}
        names = [f for f in sorted(os.listdir(inc)) if f.endswith(".h") and f not in skip]
        priv = [f for f in sorted(os.listdir(os.path.join(inc, "private"))) if f.endswith(".h") or f.endswith(".inl")]
        with open(src, "w") as f:
            for n in names:
                f.write("#include <aws/common/%s>\n" % n)
            for n in priv:
                f.write("#include <aws/common/private/%s>\n" % n)
        out = os.path.join(self.dir, config + "__all_headers%s.json" % tag)
        fl = flags_for("", config, self.gen_inc, self.repo, pre_inc) + (extra_flags or [])
        s, o, rc, err = self._run((src, out, fl, False))
        if rc != 0 or not os.path.isfile(out):
            print("ANALYSIS-BROKEN: extractor failed on the header unit (rc=%s)\n%s" % (rc, err))
            sys.exit(2)
        self.units_done.append("<all library headers>")
        return out

    def close(self):
        shutil.rmtree(self.dir, ignore_errors=True)
