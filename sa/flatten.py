"""Transparent helpers: CFG-level inlining of private helper functions the rules do not know by name.

The structural rules are anchored in named functions ("s_alloc_tracer_track inserts the record under the lock").  Extracting
a block of such a function into a new `static` helper - the most common behaviour-preserving refactoring - moves the
anchored statements into a function no rule has heard of.  This pass makes such helpers transparent: a call of a function
that
  * has internal linkage and is defined in a .c file of the same translation unit (or is a `static inline` s_* helper of a header),
  * is not mentioned by name in any rule module (rules/*.py, sa/*.py: collected from their source text),
  * is not recursive, is never used as a value (address taken / stored in a table), and is small enough,
is replaced, in the caller's CFG, by the callee's blocks: parameters become local declarations initialised with the
argument expressions, `return e` becomes an assignment to a result variable followed by a jump to the continuation, the
call's own node becomes a read of that variable.  Locals are renamed `<callee>$<n>$<name>`.  Every rule (dominators,
typestate, locksets, NUM) then sees the caller as it would be with the code written in place.  The helper itself is
marked `transparent` and is not analysed standalone by the per-function rules (it has no meaning outside its callers).

Known helpers (named in a rule) are never touched: their rules follow them explicitly."""
import copy
import os
import re

MAX_BLOCKS = 80
MAX_DEPTH = 3
_ANCHORS = None


def anchor_names():
    """every identifier that occurs in the rule sources: a function so named is known to some rule"""
    global _ANCHORS
    if _ANCHORS is None:
        here = os.path.dirname(os.path.abspath(__file__))
        names = set()
        for d in (os.path.join(here, "..", "rules"), here):
            for fn in sorted(os.listdir(d)):
                if fn.endswith(".py") and fn != "flatten.py":
                    names |= set(re.findall(r"[A-Za-z_][A-Za-z0-9_]*", open(os.path.join(d, fn)).read()))
        _ANCHORS = names
    return _ANCHORS


def _walk(n):
    if isinstance(n, dict):
        yield n
        for c in n.get("a", []) or []:
            yield from _walk(c)
        if n.get("k") == "call" and isinstance(n.get("fn"), dict):
            yield from _walk(n["fn"])
        if n.get("k") == "decl":
            for v in n.get("vars", []):
                if v.get("init") is not None:
                    yield from _walk(v["init"])
        if n.get("k") == "asm":
            for c in n.get("inputs", []) + n.get("outputs", []):
                yield from _walk(c)
    elif isinstance(n, list):
        for c in n:
            yield from _walk(c)


def _nodes_of(fj):
    for b in fj.get("blocks") or []:
        for e in b["elems"]:
            yield from _walk(e)
        if b.get("cond") is not None:
            yield from _walk(b["cond"])


def _max_id(fj):
    m = 0
    for n in _nodes_of(fj):
        if isinstance(n.get("id"), int):
            m = max(m, n["id"])
        if isinstance(n.get("was"), int):
            m = max(m, n["was"])
    return m


def transparent_helpers(functions, globals_=None, types=None):
    """names of the functions of one unit (list of function JSON dicts) that qualify"""
    anchors = anchor_names()
    import json as _json
    in_tables = set(re.findall(r"[A-Za-z_][A-Za-z0-9_]*", _json.dumps(globals_))) if globals_ else set()
    by_name = {}
    for fj in functions:
        by_name.setdefault(fj["name"], []).append(fj)
    used_as_value, callers, calls = set(), {}, {}
    for fj in functions:
        for b in fj.get("blocks") or []:
            for e in list(b["elems"]) + ([b["cond"]] if b.get("cond") is not None else []):
                for n in _walk(e):
                    if n.get("k") == "call":
                        c = n.get("callee")
                        if c:
                            callers.setdefault(c, set()).add(fj["name"])
                            calls.setdefault(fj["name"], set()).add(c)
                        # the callee expression itself is not a use as a value
                        for a in n.get("a", []) or []:
                            for m in _walk(a):
                                if m.get("k") == "fn":
                                    used_as_value.add(m.get("n"))
                    elif n.get("k") == "fn":
                        pass
                # fn nodes outside a call's callee position
                for n in _walk(e):
                    if n.get("k") != "call":
                        for a in (n.get("a", []) or []):
                            if isinstance(a, dict) and a.get("k") == "fn":
                                used_as_value.add(a.get("n"))
                    if n.get("k") == "decl":
                        for v in n.get("vars", []):
                            for m in _walk(v.get("init")):
                                if m.get("k") == "fn":
                                    used_as_value.add(m.get("n"))
    out = set()
    for name, defs in by_name.items():
        defs = [d for d in defs if d.get("blocks")] or defs  # (a forward declaration next to the definition is not a second one)
        if len(defs) != 1:
            continue
        fj = defs[0]
        if not fj.get("static") or not fj.get("blocks"):
            continue
        # private helpers: internal linkage in a .c file, or a `static inline` of a header that carries the repository's
        # prefix for private functions (s_) - the aws_* inline functions of the headers are the public API
        if not (str(fj.get("file", "")).endswith(".c") or name.startswith("s_")):
            continue
        if name in anchors or ("s_" + name) in anchors or name in used_as_value or name in in_tables or name not in callers:
            continue
        if len(fj["blocks"]) > MAX_BLOCKS:
            continue
        # a helper that takes a function pointer is a dispatcher the rules follow through their own tables (REQUIRES)
        if types is not None and any((types[p["t"]] or {}).get("fnptr") or "(*)" in ((types[p["t"]] or {}).get("s") or "") for p in fj["params"] if p.get("t") is not None and p["t"] >= 0):
            continue
        # no self-recursion.  (A helper that calls back into its - known - caller is fine: it is expanded there once and
        # the call back stays a call; mutually recursive helpers stop at MAX_DEPTH.)
        if name in calls.get(name, ()):
            continue
        # variadic / struct-by-value returning helpers and helpers with labels (goto) are left alone
        if any(b.get("label") for b in fj["blocks"]):
            continue
        out.add(name)
    return out


def _rename(gj, prefix, id_off, blk_off):
    """deep copy of callee JSON with node ids, block ids and local names shifted"""
    g = copy.deepcopy(gj)
    local = {p["n"] for p in g["params"]}
    for n in _nodes_of(g):
        if n.get("k") == "decl":
            for v in n.get("vars", []):
                local.add(v["n"])
    for n in _nodes_of(g):
        if isinstance(n.get("id"), int):
            n["id"] += id_off
        if isinstance(n.get("was"), int):
            n["was"] += id_off
        if n.get("k") == "var" and n.get("sc") in ("local", "param") and n.get("n") in local:
            n["n"] = prefix + n["n"]
            n["sc"] = "local"
        if n.get("k") == "decl":
            for v in n.get("vars", []):
                v["n"] = prefix + v["n"]
    for b in g["blocks"]:
        b["id"] += blk_off
        b["succ"] = [(s + blk_off) if s is not None else None for s in b["succ"]]
    g["entry"] += blk_off
    g["exit"] += blk_off
    for p in g["params"]:
        p["n"] = prefix + p["n"]
    return g


_CMP = {"==": lambda a, b: a == b, "!=": lambda a, b: a != b, "<": lambda a, b: a < b, ">": lambda a, b: a > b,
        "<=": lambda a, b: a <= b, ">=": lambda a, b: a >= b}


class _NonZero:
    """some value other than 0 (a failure code that is only known to be one)"""

    def __repr__(self):
        return "NZ"


NZ = _NonZero()


def _ceval(n, env, retvar=None, c=None):
    """constant value of a pure expression over the result variable (None: not a constant / not pure)"""
    v = _ceval0(n, env, retvar, c)
    return v


def _ceval0(n, env, retvar=None, c=None):
    if not isinstance(n, dict):
        return None
    k = n.get("k")
    if c is NZ:
        # only zero-ness tests of the result are decided
        if k == "ref":
            return env.get(n.get("id"))
        if k == "var":
            if ("var", n.get("n")) in env:
                return env[("var", n.get("n"))]
            return NZ if retvar is not None and n.get("n") == retvar else None
        if k == "int":
            return n.get("v")
        if k in ("cast", "paren") and len(n.get("a") or []) == 1:
            return _ceval0(n["a"][0], env, retvar, c)
        if k == "un" and n.get("op") == "!":
            v = _ceval0(n["a"][0], env, retvar, c)
            return 0 if v is NZ else (None if v is None else int(not v))
        if k == "bin" and n.get("op") in ("==", "!="):
            a, b = _ceval0(n["a"][0], env, retvar, c), _ceval0(n["a"][1], env, retvar, c)
            if (a is NZ and b == 0) or (b is NZ and a == 0):
                return int(n["op"] == "!=")
            if a is NZ or b is NZ or a is None or b is None:
                return None
            return int((a == b) == (n["op"] == "=="))
        return None
    if k == "ref":
        return env.get(n.get("id"))
    if k == "int":
        return n.get("v")
    if k == "var":
        if ("var", n.get("n")) in env:
            return env[("var", n.get("n"))]
        return c if retvar is not None and n.get("n") == retvar else None
    if k in ("cast", "paren") and len(n.get("a") or []) == 1:
        return _ceval(n["a"][0], env, retvar, c)
    if k == "un" and n.get("op") == "!":
        v = _ceval(n["a"][0], env, retvar, c)
        return None if v is None else int(not v)
    if k == "un" and n.get("op") == "-":
        v = _ceval(n["a"][0], env, retvar, c)
        return None if v is None else -v
    if k == "bin" and n.get("op") in _CMP:
        a, b = _ceval(n["a"][0], env, retvar, c), _ceval(n["a"][1], env, retvar, c)
        return None if a is None or b is None else int(_CMP[n["op"]](a, b))
    if k == "call" and n.get("callee") == "aws_raise_error":
        return -1  # aws_raise_error() returns AWS_OP_ERR, always (error.inl)
    return None


def _returned_const(gb, x):
    """the constant a `return e` statement of block gb hands back, if it is one"""
    env = {}
    for y in gb["elems"]:
        if y is x:
            break
        v = _ceval(y, env)
        if v is not None and isinstance(y.get("id"), int):
            env[y["id"]] = v
    return _ceval(x["a"][0], env) if x.get("a") else None


def _returned_nonzero(g, gb, x):
    """`return v` in a block that is entered only through the true arm of `if (v)` / `if (v != 0)` (the false arm of
    `!v` / `v == 0`): the value handed back is some non-zero failure code"""
    a0 = x["a"][0] if x.get("a") else None
    if not isinstance(a0, dict):
        return False
    byid = {}
    for y in gb["elems"]:
        if isinstance(y.get("id"), int):
            byid[y["id"]] = y
    if a0.get("k") == "ref":
        a0 = byid.get(a0.get("id"))
    while isinstance(a0, dict) and a0.get("k") in ("cast", "paren") and a0.get("a"):
        a0 = a0["a"][0]
        if isinstance(a0, dict) and a0.get("k") == "ref":
            a0 = byid.get(a0.get("id"))
    if not isinstance(a0, dict) or a0.get("k") != "var":
        return False
    name = a0["n"]
    # no assignment of the variable inside the returning block before the return
    for y in gb["elems"]:
        for n in _walk(y):
            if n.get("k") == "bin" and n.get("op", "").endswith("=") and n.get("op") not in ("==", "!=", "<=", ">=") and isinstance(n["a"][0], dict) and n["a"][0].get("n") == name:
                return False
    preds = [(b, i) for b in g["blocks"] for i, s_ in enumerate(b.get("succ") or []) if s_ == gb["id"]]
    if not preds:
        return False
    for b, i in preds:
        if b.get("term") != "if" or b.get("cond") is None or len(b.get("succ") or []) != 2:
            return False
        env = {}
        ok = True
        for y in b["elems"]:
            v = _ceval0(y, env, name, NZ)
            if isinstance(y.get("id"), int) and v is not None:
                env[y["id"]] = v
        v = _ceval0(b["cond"], env, name, NZ)
        # with the variable non-zero the condition must send control here, and with it zero it must not: the condition
        # is a pure zero-ness test of the variable
        if v is None:
            return False
        takes_true = (v is NZ) or bool(v)
        if (i == 0) != takes_true:
            return False
    return True


def _threaded_target(cont, retvar, c):
    """jump threading: when the call's value is used only to decide the branch that ends its block (`if (helper(..))`,
    `if (!helper(..))`, `if (helper(..) != AWS_OP_SUCCESS)`) and the helper returns the constant c here, the successor
    that branch takes - the in-place code never had a path from the failing return into the success arm."""
    if cont.get("term") not in ("if", "&&", "||", "?:") or cont.get("cond") is None or len(cont.get("succ") or []) != 2:
        return None
    env = {}
    for x in cont["elems"]:
        if not isinstance(x.get("id"), int):
            return None
        if x.get("k") in ("bin", "decl"):
            # `rv = helper(..)` / `int rv = helper(..)`: a copy of the result into a local that the test then reads
            tgt, rhs = None, None
            if x["k"] == "bin" and x.get("op") == "=" and isinstance(x["a"][0], dict) and x["a"][0].get("k") in ("var", "ref"):
                l_ = x["a"][0]
                if l_.get("k") == "ref":
                    l_ = next((y for y in cont["elems"] if y.get("id") == l_.get("id")), None)
                if isinstance(l_, dict) and l_.get("k") == "var" and l_.get("sc") == "local":
                    tgt, rhs = l_["n"], x["a"][1]
            elif x["k"] == "decl" and len(x.get("vars", [])) == 1 and x["vars"][0].get("init") is not None:
                tgt, rhs = x["vars"][0]["n"], x["vars"][0]["init"]
            if tgt is not None:
                v = _ceval(rhs, env, retvar, c)
                if v is None:
                    return None
                env[("var", tgt)] = v
                env[x["id"]] = v
                continue
        if x.get("k") == "var" and ("var", x.get("n")) in env:
            env[x["id"]] = env[("var", x["n"])]
            continue
        if x.get("k") == "var" and x.get("n") != retvar:
            env[x["id"]] = None  # an lvalue about to be assigned, or an unrelated read
            continue
        v = _ceval(x, env, retvar, c)
        if v is None:
            return None
        env[x["id"]] = v
    v = _ceval(cont["cond"], env, retvar, c)
    if v is None:
        return None
    return cont["succ"][0 if (v is NZ or v) else 1]


def flatten_function(fj, by_name, helpers, types, depth=0, counter=None):
    """fj with every call of a transparent helper expanded (returns fj itself when there is nothing to do)"""
    if depth >= MAX_DEPTH or not fj.get("blocks"):
        return fj
    counter = counter if counter is not None else [0]
    out = None
    changed = True
    rounds = 0
    while changed and rounds < 40:
        changed = False
        rounds += 1
        cur = out or fj
        for bi, b in enumerate(cur["blocks"]):
            hit = None
            for ei, e in enumerate(b["elems"]):
                if e.get("k") == "call" and e.get("callee") in helpers and e.get("callee") != fj["name"]:
                    gj0 = by_name[e["callee"]]
                    if len(gj0["params"]) == len(e.get("a", [])):
                        hit = (ei, e, gj0)
                        break
            if hit is None:
                continue
            if out is None:
                out = copy.deepcopy(fj)
                cur = out
                b = cur["blocks"][bi]
                ei, e, gj0 = hit[0], b["elems"][hit[0]], hit[2]
            else:
                ei, e, gj0 = hit
            gj0 = flatten_function(gj0, by_name, helpers, types, depth + 1, counter)
            counter[0] += 1
            prefix = "%s$%d$" % (gj0["name"], counter[0])
            id_off = _max_id(cur) + 1
            blk_off = max(x["id"] for x in cur["blocks"]) + 1
            g = _rename(gj0, prefix, id_off, blk_off)
            # a parameter that receives an integer constant and is never written in the helper is that constant: the
            # helper's tests of it are decided (the expansion of find_impl(.., true) has no `false` arm)
            cenv = {}
            for y in b["elems"][:ei]:
                v_ = _ceval(y, cenv)
                if v_ is not None and isinstance(y.get("id"), int):
                    cenv[y["id"]] = v_
            byid = {}
            for n_ in _nodes_of(g):
                if isinstance(n_.get("id"), int) and n_.get("k") != "ref":
                    byid.setdefault(n_["id"], n_)
            written = set()
            for n_ in _nodes_of(g):
                if (n_.get("k") == "bin" and n_.get("op", "").endswith("=") and n_.get("op") not in ("==", "!=", "<=", ">=")) or (n_.get("k") == "un" and n_.get("op") in ("addr", "pre++", "pre--", "post++", "post--")):
                    t_ = n_["a"][0] if n_.get("a") else None
                    if isinstance(t_, dict) and t_.get("k") == "ref":
                        t_ = byid.get(t_.get("id"))
                    while isinstance(t_, dict) and t_.get("k") in ("cast", "paren") and t_.get("a"):
                        t_ = t_["a"][0]
                        if isinstance(t_, dict) and t_.get("k") == "ref":
                            t_ = byid.get(t_.get("id"))
                    if isinstance(t_, dict) and t_.get("k") == "var":
                        written.add(t_.get("n"))
            for p_, a_ in zip(g["params"], e.get("a", [])):
                cv_ = _ceval(a_, cenv)
                if cv_ is None or p_["n"] in written or not isinstance(cv_, int):
                    continue
                for n_ in _nodes_of(g):
                    if n_.get("k") == "var" and n_.get("n") == p_["n"]:
                        keep = {k_: n_[k_] for k_ in ("id", "t", "loc", "was") if k_ in n_}
                        n_.clear()
                        n_.update(keep)
                        n_.update({"k": "int", "v": cv_})
            nid = [id_off + _max_id(gj0) + 1]

            def fresh():
                nid[0] += 1
                return nid[0]
            loc = e.get("loc", [0, 0])
            rt = types[gj0["ret"]] if gj0.get("ret") is not None and gj0["ret"] >= 0 else {}
            has_val = bool(rt) and rt.get("c") != "void" and rt.get("s") != "void"
            retvar = prefix + "$ret"
            # continuation block: the rest of b
            cont = {k: v for k, v in b.items() if k in ("term", "cond", "term_loc", "succ", "noreturn", "sc_forced")}
            cont["id"] = max(x["id"] for x in g["blocks"]) + 1  # (the callee's ids are sparse when it was expanded itself)
            cont["elems"] = b["elems"][ei + 1:]
            if has_val:
                cont["elems"] = [{"k": "var", "id": e["id"], "t": e.get("t", gj0["ret"]), "loc": loc, "n": retvar, "sc": "local"}] + cont["elems"]
            # head block: what preceded the call, then the parameter bindings
            head_elems = b["elems"][:ei]
            for p, a in zip(g["params"], e.get("a", [])):
                head_elems.append({"k": "decl", "id": fresh(), "loc": loc, "vars": [{"n": p["n"], "t": p["t"], "init": a, "bind": True}]})
            if has_val:
                head_elems.append({"k": "decl", "id": fresh(), "loc": loc, "vars": [{"n": retvar, "t": gj0["ret"], "init": None}]})
            for k in ("term", "cond", "term_loc", "noreturn", "sc_forced"):
                b.pop(k, None)
            b["elems"] = head_elems
            b["succ"] = [g["entry"]]
            # the callee's returns
            still_to_cont = False
            extra_blocks = []
            for gb in g["blocks"]:
                new_elems = []
                target = cont["id"]
                for x in gb["elems"]:
                    if x.get("k") == "ret":
                        if has_val and x.get("a"):
                            cv = _returned_const(gb, x)
                            if cv is None and _returned_nonzero(g, gb, x):
                                cv = NZ
                            if cv is not None:
                                t = _threaded_target(cont, retvar, cv)
                                if t is not None:
                                    pure = all(y.get("k") not in ("bin", "decl") or (y.get("k") == "bin" and y.get("op") in _CMP) for y in cont["elems"])
                                    if pure:
                                        target = t
                                    else:
                                        # the continuation also stores the result somewhere: run a private copy of
                                        # its statements, then go where its test leads
                                        cp = copy.deepcopy(cont["elems"])
                                        idmap = {}
                                        for y in cp:
                                            for n_ in _walk(y):
                                                if n_.get("k") != "ref" and isinstance(n_.get("id"), int):
                                                    idmap[n_["id"]] = fresh()
                                        for y in cp:
                                            for n_ in _walk(y):
                                                if isinstance(n_.get("id"), int) and n_["id"] in idmap:
                                                    n_["id"] = idmap[n_["id"]]
                                                n_.pop("was", None)
                                        tb = {"id": None, "elems": cp, "succ": [t]}
                                        extra_blocks.append(tb)
                                        target = ("extra", len(extra_blocks) - 1)
                            new_elems.append({"k": "bin", "id": x["id"], "t": gj0["ret"], "loc": x.get("loc", loc), "op": "=",
                                              "a": [{"k": "var", "id": fresh(), "t": gj0["ret"], "loc": x.get("loc", loc), "n": retvar, "sc": "local"}, x["a"][0]]})
                        elif x.get("a"):
                            new_elems.append(x["a"][0]) if isinstance(x["a"][0], dict) and x["a"][0].get("k") != "ref" else None
                    else:
                        new_elems.append(x)
                gb["elems"] = new_elems
                if any(s == g["exit"] for s in gb["succ"]) and not gb.get("noreturn") and target == cont["id"]:
                    still_to_cont = True
                gb["succ"] = [(cur["exit"] if gb.get("noreturn") else target) if s == g["exit"] else s for s in gb["succ"]]
            nxt_id = max(cont["id"], max(x["id"] for x in g["blocks"])) + 1
            for i_, tb in enumerate(extra_blocks):
                tb["id"] = nxt_id + i_
            for gb in g["blocks"]:
                gb["succ"] = [extra_blocks[s[1]]["id"] if isinstance(s, tuple) else s for s in gb["succ"]]
            cur["blocks"] = [x for x in cur["blocks"]] + [gb for gb in g["blocks"] if gb["id"] != g["exit"]] + ([cont] if still_to_cont or not has_val else []) + extra_blocks
            changed = True
            break
    if out is not None:
        _prune_unreachable(out)
    return out or fj


def _prune_unreachable(fj):
    """after constants have been propagated into an expansion: drop the blocks no feasible edge reaches any more (a branch
    on a literal 0 / 1 has one arm)"""
    blocks = {b["id"]: b for b in fj["blocks"]}
    seen, work = set(), [fj["entry"]]
    while work:
        x = work.pop()
        if x in seen or x not in blocks:
            continue
        seen.add(x)
        b = blocks[x]
        succ = list(b.get("succ") or [])
        if b.get("term") in ("if", "?:", "&&", "||") and b.get("cond") is not None and len(succ) == 2:
            env = {}
            for y in b["elems"]:
                v = _ceval(y, env)
                if v is not None and isinstance(y.get("id"), int):
                    env[y["id"]] = v
            cv = _ceval(b["cond"], env)
            if cv is not None:
                succ = [succ[0 if cv else 1]]
        work.extend(s_ for s_ in succ if s_ is not None)
    seen.add(fj["exit"])
    if len(seen) < len(fj["blocks"]):
        fj["blocks"] = [b for b in fj["blocks"] if b["id"] in seen]
        for b in fj["blocks"]:
            b["succ"] = [s_ if (s_ is None or s_ in seen) else None for s_ in b["succ"]]


def desugar_struct_assign(functions, types, records):
    """`X = (struct T){.a = e1, .b = e2}` as a block element becomes `X.a = e1; X.b = e2` (p->a for X = *p): the rules that
    look for the store to a field see it whichever way the record is filled.  Only when every initialiser is free of side
    effects and does not read X's own fields other than through a different object (the values are computed before the
    stores in C; here they are read one by one)."""
    for fj in functions:
        if not fj.get("blocks"):
            continue
        nid = None
        for b in fj["blocks"]:
            new = []
            changed = False
            for el in b["elems"]:
                ok = el.get("k") == "bin" and el.get("op") == "=" and isinstance(el["a"][1], dict) and el["a"][1].get("k") == "complit"
                ini = el["a"][1]["a"][0] if ok and el["a"][1].get("a") else None
                if not (ok and isinstance(ini, dict) and ini.get("k") == "init" and ini.get("fields") and len(ini["fields"]) == len(ini.get("a", []))):
                    new.append(el)
                    continue
                lhs = el["a"][0]
                t = types[el["t"]] if isinstance(el.get("t"), int) and el["t"] >= 0 else {}
                rec = records.get(t.get("rec")) if t.get("rec") else None
                pure = all(n.get("k") in ("var", "member", "int", "cast", "ref", "un", "bin", "decay", "index", "fn", "str", "float") and not (n.get("k") == "bin" and n.get("op", "").endswith("=") and n.get("op") not in ("==", "!=", "<=", ">=")) and not (n.get("k") == "un" and n.get("op") in ("pre++", "pre--", "post++", "post--")) for v_ in ini["a"] for n in _walk(v_))
                if rec is None or rec.get("union") or not pure or lhs.get("k") == "ref":
                    new.append(el)
                    continue
                if nid is None:
                    nid = _max_id(fj) + 1
                ft = {f_["n"]: f_["t"] for f_ in rec["fields"]}
                arrow = lhs.get("k") == "un" and lhs.get("op") == "deref"
                for fname, val in zip(ini["fields"], ini["a"]):
                    base = copy.deepcopy(lhs["a"][0] if arrow else lhs)
                    for n in _walk(base):
                        if isinstance(n.get("id"), int):
                            n["id"] = nid
                            nid += 1
                    m = {"k": "member", "id": nid, "t": ft.get(fname, -1), "loc": el.get("loc"), "f": fname, "arrow": bool(arrow), "rec": t["rec"], "a": [base]}
                    nid += 1
                    new.append({"k": "bin", "id": nid, "t": ft.get(fname, -1), "loc": el.get("loc"), "op": "=", "a": [m, val]})
                    nid += 1
                changed = True
            if changed:
                b["elems"] = new
    return functions


def flatten_unit(functions, types, globals_=None):
    """list of function JSON dicts -> (new list, set of transparent helper names)"""
    helpers = transparent_helpers(functions, globals_, types)
    if not helpers:
        return functions, set()
    by_name = {fj["name"]: fj for fj in functions if fj["name"] in helpers and fj.get("blocks")}
    out = []
    for fj in functions:
        if fj["name"] in helpers:
            out.append(fj)
            continue
        out.append(flatten_function(fj, by_name, helpers, types))
    return out, helpers
