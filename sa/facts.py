"""Loads awsfacts JSON; expression utilities; event extraction."""
import json
import os

BRANCH_TERMS = ("if", "while", "for", "do", "&&", "||", "?:")
ASSIGN_OPS = ("=", "+=", "-=", "*=", "/=", "%=", "&=", "|=", "^=", "<<=", ">>=")


class Block:
    __slots__ = ("id", "elems", "term", "cond", "succ", "noreturn", "case", "default", "label", "term_loc", "sc_forced")

    def __init__(self, j):
        self.id = j["id"]
        self.elems = j["elems"]
        self.term = j.get("term")
        self.cond = j.get("cond")
        self.succ = j["succ"]
        self.noreturn = j.get("noreturn", False)
        self.case = j.get("case")
        self.default = j.get("default", False)
        self.label = j.get("label")
        self.term_loc = j.get("term_loc")
        self.sc_forced = j.get("sc_forced", 0)  # +1/-1: leaving this `||`/`&&` block early decides the successor's branch (same / negated)


class Event:
    __slots__ = ("kind", "node", "blk", "idx", "seq", "mode", "fn")

    def __init__(self, kind, node, blk, idx, seq, mode=None, fn=None):
        self.kind = kind  # call | access | ret | asm | decl
        self.node = node
        self.blk = blk
        self.idx = idx
        self.seq = seq
        self.mode = mode  # for access: r | w | rw | addr
        self.fn = fn

    @property
    def pos(self):
        return (self.blk, self.idx, self.seq)

    @property
    def line(self):
        return self.node.get("loc", [0, 0])[0]

    def __repr__(self):
        return "<%s %s @B%d.%d line %s>" % (self.kind, self.fn.show(self.node) if self.fn else "", self.blk, self.idx, self.line)


class Fn:
    def __init__(self, j, unit):
        self.unit = unit
        self.name = j["name"]
        self.file = j["file"]
        self.line = j["line"]
        self.end_line = j["end_line"]
        self.static = j["static"]
        self.inline = j["inline"]
        self.ret = j["ret"]
        self.params = j["params"]
        self.entry = j.get("entry")
        self.exit = j.get("exit")
        self.blocks = {}
        self.nodes = {}
        if j.get("blocks"):
            for b in j["blocks"]:
                B = Block(b)
                self.blocks[B.id] = B
                for e in B.elems:
                    self._index(e)
                if B.cond is not None:
                    self._index(B.cond)
        self._events = None
        self._aliases = None
        self._preds = None

    def _index(self, n):
        if n is None or not isinstance(n, dict):
            return
        if n.get("k") != "ref" and "id" in n:
            self.nodes.setdefault(n["id"], n)
        if n.get("k") == "ref" and "was" in n:
            self.nodes.setdefault(n["was"], {"k": "ref", "id": n["id"]})  # a dropped wrapper's own id, used by an earlier element
        for c in n.get("a", []) or []:
            self._index(c)
        if n.get("k") == "call":
            self._index(n.get("fn"))
        if n.get("k") == "decl":
            for v in n["vars"]:
                self._index(v.get("init"))
        if n.get("k") == "asm":
            for c in n.get("inputs", []) + n.get("outputs", []):
                self._index(c)

    # ---- types
    def ty(self, n):
        t = n.get("t") if isinstance(n, dict) else None
        if t is None or t < 0:
            return {}
        return self.unit.types[t]

    def rettype(self):
        return self.unit.types[self.ret] if self.ret is not None and self.ret >= 0 else {}

    # ---- references
    def d(self, n):
        """dereference a CFG-element reference"""
        while n is not None and n.get("k") == "ref":
            n = self.nodes.get(n["id"])
        return n

    def preds(self):
        if self._preds is None:
            p = {b: [] for b in self.blocks}
            for b in self.blocks.values():
                for s in b.succ:
                    if s is not None:
                        p[s].append(b.id)
            self._preds = p
        return self._preds

    def _bound(self, name):
        b = self.__dict__.get("_bound_names")
        if b is None:
            b = set()
            for blk in self.blocks.values():
                for e in blk.elems:
                    if e["k"] == "decl":
                        for v in e["vars"]:
                            if v.get("bind"):
                                b.add(v["n"])
            self._bound_names = b
        return name in b or name.endswith("$$ret")

    def canon(self, name):
        """the string show() prints for the local variable `name` (variables introduced by sa/flatten.py print as what
        they stand for)"""
        return self.show({"k": "var", "n": name, "sc": "local", "t": -1, "id": -1})

    # ---- printing (canonical strings; local single-assignment aliases optionally resolved)
    def show(self, n, alias=False, depth=0):
        if n is None:
            return "null"
        if depth > 60:
            return "..."
        k = n["k"]
        S = lambda x: self.show(x, alias, depth + 1)
        if k == "ref":
            return S(self.d(n)) if self.d(n) is not None else "#%d" % n["id"]
        if k == "int":
            return n.get("name") or str(n["v"])
        if k == "float":
            return n["v"]
        if k == "str":
            return json.dumps(n["v"])
        if k == "fn":
            return n["n"]
        if k == "var":
            if (alias or ("$" in n["n"] and self._bound(n["n"]))) and n["sc"] == "local":  # parameters / results of expanded helpers (sa/flatten.py) are always seen through
                a = self.aliases().get(n["n"])
                if a is not None:
                    return self.show(a, alias, depth + 1)
            return n["n"]
        if k == "member":
            b_ = S(n["a"][0])
            if n["arrow"] and b_.startswith("&") and all(ch.isalnum() or ch in "_$.->[]" for ch in b_[1:]):
                return b_[1:] + "." + n["f"]  # (&x)->f is x.f (an address bound to a helper's parameter, sa/flatten.py)
            return b_ + ("->" if n["arrow"] else ".") + n["f"]
        if k == "un":
            op = n["op"]
            x = S(n["a"][0])
            if op == "deref":
                return "*" + x
            if op == "addr":
                return "&" + x
            if op in ("post++", "post--"):
                return x + op[4:]
            if op in ("pre++", "pre--"):
                return op[3:] + x
            return op + x
        if k == "bin":
            return "(" + S(n["a"][0]) + " " + n["op"] + " " + S(n["a"][1]) + ")"
        if k == "index":
            return S(n["a"][0]) + "[" + S(n["a"][1]) + "]"
        if k == "call":
            return (n.get("callee") or ("(*" + S(n["fn"]) + ")")) + "(" + ", ".join(S(x) for x in n["a"]) + ")"
        if k == "cast":
            if alias and n.get("ck") in ("BitCast", "NoOp"):
                return S(n["a"][0])
            return "(" + self.ty(n).get("s", "?") + ")" + S(n["a"][0])
        if k == "decay":
            return S(n["a"][0])
        if k == "cond":
            return "(" + S(n["a"][0]) + " ? " + S(n["a"][1]) + " : " + S(n["a"][2]) + ")"
        if k == "decl":
            return "decl " + ", ".join(v["n"] + (" = " + S(v["init"]) if v.get("init") else "") for v in n["vars"])
        if k == "ret":
            return "return " + (S(n["a"][0]) if n["a"] and n["a"][0] else "")
        if k == "init":
            return "{" + ", ".join(S(x) for x in n["a"]) + "}"
        if k == "complit":
            return S(n["a"][0])
        if k == "asm":
            return "asm(" + json.dumps(n["asm"]) + ")"
        return k + ":" + str(n.get("cls", "")) + "(" + ", ".join(S(x) for x in n.get("a", []) if x) + ")"

    def aliases(self):
        """locals declared with an initialiser and never assigned again and whose address is not taken:
        name -> initialiser node (only when the initialiser is a side-effect-free lvalue/address expression)."""
        if self._aliases is None:
            decl = {}
            bad = set()
            assigned = set()
            bound = set()
            for b in self.blocks.values():
                for e in b.elems:
                    for n in self.walk(e):
                        if n["k"] == "decl":
                            for v in n["vars"]:
                                if v["n"] in decl:
                                    bad.add(v["n"])
                                    assigned.add(v["n"])
                                decl[v["n"]] = v.get("init")
                                if v.get("bind"):
                                    bound.add(v["n"])
                        elif n["k"] == "bin" and n["op"] in ASSIGN_OPS:
                            l = self.d(n["a"][0])
                            if l and l["k"] == "var":
                                bad.add(l["n"])
                                assigned.add(l["n"])
                        elif n["k"] == "un" and n["op"] in ("post++", "post--", "pre++", "pre--", "addr"):
                            l = self.d(n["a"][0])
                            if l and l["k"] == "var":
                                bad.add(l["n"])
                                if n["op"] != "addr":
                                    assigned.add(l["n"])
            out = {}
            for name, init in decl.items():
                if name in bad or init is None:
                    continue
                i = self.d(init)
                if i is not None and self._pure_path(i):
                    out[name] = i
                elif i is not None and self._pure_expr(i, bad):
                    out[name] = i  # a temporary holding a side-effect-free expression over never-reassigned variables (also: a parameter of an expanded helper, sa/flatten.py)
            # a parameter of an expanded helper bound to a plain variable of the caller names that variable, also when the
            # helper passes its address on (an out-parameter that receives the same object back); never when it is assigned
            for name in bound:
                if name not in out and name not in assigned and decl.get(name) is not None:
                    i = self.d(decl[name])
                    while i is not None and i["k"] == "cast":
                        i = self.d(i["a"][0])
                    if i is not None and i["k"] == "var" and i["n"] not in assigned:
                        out[name] = i
            # the result variable of an expanded helper with a single return: stands for the returned expression
            assigned = {}
            for b in self.blocks.values():
                for e in b.elems:
                    if e["k"] == "bin" and e["op"] == "=":
                        l = self.d(e["a"][0])
                        if l and l["k"] == "var" and l["n"].endswith("$$ret"):
                            assigned.setdefault(l["n"], []).append(e["a"][1])
            for name, rhs in assigned.items():
                if len(rhs) == 1 and decl.get(name, 0) is None:
                    i = self.d(rhs[0])
                    if i is not None and (self._pure_path(i) or self._pure_expr(i, bad)):
                        out[name] = i
            self._aliases = {}
            self._aliases = out
        return self._aliases

    def retdefs(self):
        """result variables of expanded helpers (sa/flatten.py) that are assigned exactly once: name -> the returned
        expression, whatever it computes (the variable is read right after the assignment, in the continuation)"""
        if getattr(self, "_retdefs", None) is None:
            assigned = {}
            for b in self.blocks.values():
                for e in b.elems:
                    if e["k"] == "bin" and e["op"] == "=":
                        l = self.d(e["a"][0])
                        if l and l["k"] == "var" and l["n"].endswith("$$ret"):
                            assigned.setdefault(l["n"], []).append(e["a"][1])
            self._retdefs = {k: self.d(v[0]) for k, v in assigned.items() if len(v) == 1}
        return self._retdefs

    def _pure_lvalue(self, n, modified, depth=0):
        """an lvalue whose *address* is fixed: a variable, a member of such an lvalue, an element at a side-effect-free
        index, the target of a side-effect-free pointer expression"""
        n = self.d(n)
        if n is None or depth > 20:
            return False
        k = n["k"]
        if k == "var":
            return True
        if k == "member":
            return self._pure_expr(n["a"][0], modified, depth + 1) if n.get("arrow") else self._pure_lvalue(n["a"][0], modified, depth + 1)
        if k == "index":
            return self._pure_expr(n["a"][0], modified, depth + 1) and self._pure_expr(n["a"][1], modified, depth + 1)
        if k == "un" and n["op"] == "deref":
            return self._pure_expr(n["a"][0], modified, depth + 1)
        if k == "cast":
            return self._pure_lvalue(n["a"][0], modified, depth + 1)
        return False

    def _pure_expr(self, n, modified, depth=0):
        """side-effect-free arithmetic over variables that are never re-assigned"""
        n = self.d(n)
        if n is None or depth > 20:
            return False
        k = n["k"]
        if k == "int":
            return True
        if k == "var":
            return n["n"] not in modified
        if k in ("member", "cast", "decay"):
            return self._pure_expr(n["a"][0], modified, depth + 1)
        if k == "index":
            return all(self._pure_expr(a, modified, depth + 1) for a in n["a"])
        if k == "un" and n["op"] == "addr":
            return self._pure_lvalue(n["a"][0], modified, depth + 1)  # the address of an object does not depend on the object's value
        if k == "un" and n["op"] in ("deref", "-", "~", "!", "+"):
            return self._pure_expr(n["a"][0], modified, depth + 1)
        if k == "bin" and n["op"] not in ASSIGN_OPS and n["op"] != ",":
            return all(self._pure_expr(a, modified, depth + 1) for a in n["a"])
        return False

    def _pure_path(self, n, depth=0):
        n = self.d(n)
        if n is None or depth > 20:
            return False
        k = n["k"]
        if k == "var":
            return True
        if k == "member":
            return self._pure_path(n["a"][0], depth + 1)
        if k == "un" and n["op"] in ("addr", "deref"):
            return self._pure_path(n["a"][0], depth + 1)
        if k == "cast" and n.get("ck") in ("BitCast", "NoOp"):
            return self._pure_path(n["a"][0], depth + 1)
        return False

    # ---- traversal
    def walk(self, n, follow_refs=False):
        """pre-order over a tree (children before siblings); refs are leaves unless follow_refs"""
        if n is None:
            return
        if n["k"] == "ref":
            if follow_refs:
                t = self.d(n)
                if t is not None:
                    yield from self.walk(t, True)
            else:
                yield n
            return
        yield n
        if n["k"] == "call":
            yield from self.walk(n.get("fn"), follow_refs)
        if n["k"] == "decl":
            for v in n["vars"]:
                yield from self.walk(v.get("init"), follow_refs)
        if n["k"] == "asm":
            for c in n.get("outputs", []) + n.get("inputs", []):
                yield from self.walk(c, follow_refs)
        for c in n.get("a", []) or []:
            yield from self.walk(c, follow_refs)

    def events(self):
        """all events of the function: {block id: [Event...]} in evaluation order"""
        if self._events is None:
            ev = {}
            for b in self.blocks.values():
                lst = []
                for idx, e in enumerate(b.elems):
                    seq = [0]
                    self._emit(e, "r", b.id, idx, seq, lst, top=True)
                ev[b.id] = lst
            self._events = ev
        return self._events

    def all_events(self):
        for b in sorted(self.blocks):
            yield from self.events()[b]

    def _emit(self, n, mode, blk, idx, seq, out, top=False):
        if n is None:
            return
        k = n["k"]

        def add(kind, node, m=None):
            seq[0] += 1
            out.append(Event(kind, node, blk, idx, seq[0], m, self))

        if k == "ref":
            return
        if k in ("int", "float", "str", "fn"):
            return
        if k == "var":
            add("access", n, mode)
            return
        if k == "member":
            base = n["a"][0]
            if n["arrow"]:
                self._emit(base, "r", blk, idx, seq, out)
            else:
                self._emit(base, "base" if mode != "addr" else "addr", blk, idx, seq, out)
            add("access", n, mode)
            return
        if k == "index":
            self._emit(n["a"][0], "r", blk, idx, seq, out)
            self._emit(n["a"][1], "r", blk, idx, seq, out)
            add("access", n, mode)
            return
        if k == "un":
            op = n["op"]
            if op == "deref":
                self._emit(n["a"][0], "r", blk, idx, seq, out)
                add("access", n, mode)
            elif op == "addr":
                self._emit(n["a"][0], "addr", blk, idx, seq, out)
            elif op in ("post++", "post--", "pre++", "pre--"):
                self._emit(n["a"][0], "rw", blk, idx, seq, out)
            else:
                self._emit(n["a"][0], "r", blk, idx, seq, out)
            return
        if k == "decay":
            self._emit(n["a"][0], "addr", blk, idx, seq, out)
            return
        if k == "bin":
            op = n["op"]
            if op == "=":
                self._emit(n["a"][1], "r", blk, idx, seq, out)
                self._emit(n["a"][0], "w", blk, idx, seq, out)
            elif op in ASSIGN_OPS:
                self._emit(n["a"][1], "r", blk, idx, seq, out)
                self._emit(n["a"][0], "rw", blk, idx, seq, out)
            else:
                self._emit(n["a"][0], "r", blk, idx, seq, out)
                self._emit(n["a"][1], "r", blk, idx, seq, out)
            return
        if k == "call":
            self._emit(n.get("fn"), "r", blk, idx, seq, out)
            for a in n["a"]:
                self._emit(a, "r", blk, idx, seq, out)
            add("call", n)
            return
        if k == "decl":
            for v in n["vars"]:
                self._emit(v.get("init"), "r", blk, idx, seq, out)
            add("decl", n)
            return
        if k == "ret":
            for a in n["a"]:
                self._emit(a, "r", blk, idx, seq, out)
            add("ret", n)
            return
        if k == "asm":
            for c in n.get("inputs", []):
                self._emit(c, "r", blk, idx, seq, out)
            for c in n.get("outputs", []):
                self._emit(c, "w", blk, idx, seq, out)
            add("asm", n)
            return
        for a in n.get("a", []) or []:
            self._emit(a, "r", blk, idx, seq, out)

    # ---- convenience queries
    def calls(self, name=None, pred=None):
        out = []
        for e in self.all_events():
            if e.kind == "call":
                c = e.node.get("callee")
                if name is not None and c != name and not (isinstance(name, (set, tuple, list, frozenset)) and c in name):
                    continue
                if pred is not None and not pred(e):
                    continue
                out.append(e)
        return out

    def indirect_calls(self):
        return [e for e in self.all_events() if e.kind == "call" and e.node.get("callee") is None]

    def field_accesses(self, rec=None, field=None, modes=None):
        out = []
        for e in self.all_events():
            if e.kind == "access" and e.node["k"] == "member":
                if rec is not None and e.node.get("rec") != rec:
                    continue
                if field is not None and e.node["f"] != field and not (isinstance(field, (set, tuple, list, frozenset)) and e.node["f"] in field):
                    continue
                if modes is not None and e.mode not in modes:
                    continue
                out.append(e)
        return out

    def returns(self):
        return [e for e in self.all_events() if e.kind == "ret"]

    def loc(self, n):
        l = n.get("loc") or [0, 0]
        f = l[2] if len(l) > 2 else self.file
        return "%s:%d" % (f.replace("/repo/", ""), l[0])

    def is_const(self, n):
        n = self.d(n)
        if n is None:
            return None
        if n["k"] == "int":
            return n["v"]
        if n["k"] in ("str",):
            return 1
        if n["k"] == "decay" and self.d(n["a"][0]) and self.d(n["a"][0])["k"] == "str":
            return 1
        return None


def const_of(n, types):
    """constant value of an initialiser expression tree (C initialisers, which clang's evaluator does not fold in C mode)"""
    if n is None:
        return {"opaque": "null"}
    k = n["k"]
    if k == "int":
        d = {"int": n["v"]}
        if n.get("name"):
            d["name"] = n["name"]
        return d
    if k == "float":
        return {"float": n["v"]}
    if k == "fn":
        return {"fn": n["n"]}
    if k == "str":
        return {"str": n["v"]}
    if k in ("cast", "decay", "complit"):
        return const_of(n["a"][0], types)
    if k == "zeroinit":
        t = types[n["t"]] if n.get("t", -1) >= 0 else {}
        if "arr" in t:
            return {"array": [{"int": 0}] * t["arr"]}
        return {"int": 0, "zero": True}
    if k == "un" and n["op"] == "addr":
        x = n["a"][0]
        if x["k"] == "var":
            return {"addr": x["n"]}
        return {"opaque": "addr"}
    if k == "un" and n["op"] == "-":
        v = const_of(n["a"][0], types)
        if "int" in v:
            return {"int": -v["int"]}
    if k == "init":
        t = types[n["t"]] if n.get("t", -1) >= 0 else {}
        if "fields" in n and "arr" not in t:
            return {"struct": {fld: const_of(a, types) for fld, a in zip(n["fields"], n["a"])}}
        elems = [const_of(a, types) for a in n["a"]]
        if "arr" in t and len(elems) < t["arr"]:
            elems = elems + [{"int": 0, "zero": True}] * (t["arr"] - len(elems))
        return {"array": elems}
    if k == "var":
        return {"var": n["n"]}
    return {"opaque": k}


class Unit:
    def __init__(self, path):
        with open(path) as f:
            j = json.load(f)
        self.path = path
        self.unit = j["unit"]
        self.types = j["types"]
        self.records = j["records"]
        self.enums = j["enums"]
        self.globals = {g["n"]: g for g in j["globals"]}
        for g in self.globals.values():
            if g.get("init") is None and g.get("init_expr") is not None:
                g["init"] = const_of(g["init_expr"], self.types)
        fl, helpers = j["functions"], set()
        if not os.environ.get("VERIF_NO_FLATTEN"):
            from . import flatten
            flatten.desugar_struct_assign(j["functions"], self.types, self.records)
            fl, helpers = flatten.flatten_unit(j["functions"], self.types, j["globals"])
        self.functions = [Fn(f, self) for f in fl]
        self.transparent = helpers  # private helpers no rule knows by name: expanded in their callers (sa/flatten.py)
        for f in self.functions:
            f.transparent = f.name in helpers


class Program:
    """A set of units for one configuration; functions de-duplicated by (file, line, name)."""

    def __init__(self):
        self.units = []
        self.fns = {}  # name -> Fn (first definition wins; static duplicates are kept in by_key)
        self.by_key = {}
        self.transparent = {}
        self.records = {}
        self.enums = {}
        self.globals = {}

    _unit_cache = {}

    def add(self, path):
        u = Program._unit_cache.get(path)
        if u is None:
            u = Unit(path)
            Program._unit_cache[path] = u
        self.units.append(u)
        for f in u.functions:
            key = (f.file, f.line, f.name)
            if key in self.by_key or key in self.transparent:
                continue
            if getattr(f, "transparent", False):
                # a private helper no rule knows by name: expanded in its callers (sa/flatten.py), not an analysis subject of its own
                self.transparent[key] = f
                self.fns.setdefault(f.name, f)
                continue
            self.by_key[key] = f
            self.fns.setdefault(f.name, f)
        for k, v in u.records.items():
            if k not in self.records:
                v = dict(v)
                v["_unit"] = u
                self.records[k] = v
        self.enums.update(u.enums)
        for k, g in u.globals.items():
            g = dict(g)
            g["_unit"] = u
            self.globals.setdefault(k, g)
        return u

    def fn(self, name, file_suffix=None):
        if file_suffix:
            for (f, l, n), fn in self.by_key.items():
                if n == name and f.endswith(file_suffix):
                    return fn
            return None
        return self.fns.get(name)

    def functions_in(self, file_suffix, include_transparent=False):
        return sorted([fn for (f, l, n), fn in self.by_key.items() if f.endswith(file_suffix) and (include_transparent or not getattr(fn, "transparent", False))], key=lambda x: x.line)
