"""SHAPE: abstract interpretation of the (loop-free) intrusive linked-list functions over symbolic heaps.

A heap is a finite set of named cells (list sentinels and nodes) with next/prev edges.  The interpreter walks the CFG facts
of each function (assignments to fields, whole-node copies, calls to other list functions, pointer comparisons) - it never
runs compiled code.  Every function touches only cells within two links of its arguments, so enumerating every
configuration of that neighbourhood (list lengths 0..4, every argument position, adjacent / identical / cross-list
arguments) covers every alias configuration; farther cells are represented by the untouched remainder and checked by the
frame condition."""
from .cfg import edges


class ShapeError(Exception):
    pass


class Heap:
    def __init__(self):
        self.f = {}  # (cell, field) -> cell | None
        self.lists = []

    def new_list(self, name, nodes):
        H, T = ("H", name), ("T", name)
        self.lists.append(name)
        seq = [H] + list(nodes) + [T]
        for i, c in enumerate(seq):
            self.f[(c, "next")] = seq[i + 1] if i + 1 < len(seq) else None
            self.f[(c, "prev")] = seq[i - 1] if i > 0 else None

    def loose(self, n, garbage=False):
        self.f[(n, "next")] = ("G", 1) if garbage else None
        self.f[(n, "prev")] = ("G", 2) if garbage else None

    def forward(self, name, limit=64):
        out = []
        c = self.f.get((("H", name), "next"))
        while c != ("T", name):
            if c is None or len(out) > limit or c[0] in ("H", "T", "G"):
                return None
            out.append(c)
            c = self.f.get((c, "next"))
        return out

    def backward(self, name, limit=64):
        out = []
        c = self.f.get((("T", name), "prev"))
        while c != ("H", name):
            if c is None or len(out) > limit or c[0] in ("H", "T", "G"):
                return None
            out.append(c)
            c = self.f.get((c, "prev"))
        return out

    def copy(self):
        h = Heap()
        h.f = dict(self.f)
        h.lists = list(self.lists)
        return h


class Interp:
    def __init__(self, prog, max_steps=2000):
        self.prog = prog
        self.steps = 0
        self.max_steps = max_steps
        self.touched = set()

    def fn(self, name):
        f = self.prog.fn(name)
        if f is None:
            raise ShapeError("function %s not found" % name)
        return f

    def call(self, name, args, heap):
        f = self.fn(name)
        env = {}
        for p, a in zip(f.params, args):
            env[p["n"]] = a
        b = f.entry
        vals = {}
        ret = None
        while True:
            self.steps += 1
            if self.steps > self.max_steps:
                raise ShapeError("step limit (unexpected loop) in %s" % name)
            B = f.blocks[b]
            for e in B.elems:
                r = self.exec(f, e, env, heap, vals)
                if r is not None and r[0] == "ret":
                    return r[1]
            es = edges(f, b)
            if not es:
                return ret
            if len(es) == 1 and es[0][1] is None:
                b = es[0][0]
                continue
            if B.term == "switch":
                raise ShapeError("switch in list code")
            cond = B.cond
            if cond is None:
                b = es[0][0]
                continue
            v = self.rval(f, cond, env, heap, vals)
            truth = bool(v) if not isinstance(v, tuple) else True
            nxt = [s for s, c, p in es if p == truth]
            if not nxt:
                raise ShapeError("no successor for branch in %s" % name)
            b = nxt[0]

    # ---- evaluation
    def lval(self, f, n, env, heap, vals):
        n = f.d(n) if n.get("k") == "ref" else n
        k = n["k"]
        if k == "var":
            return ("var", n["n"])
        if k == "member":
            base = n["a"][0]
            if n["arrow"]:
                p = self.rval(f, base, env, heap, vals)
                if p is None:
                    raise ShapeError("NULL dereference ->%s in %s at line %s" % (n["f"], f.name, n.get("loc")))
                if p[0] == "L":
                    if n["f"] == "head":
                        return ("obj", ("H", p[1]))
                    if n["f"] == "tail":
                        return ("obj", ("T", p[1]))
                    raise ShapeError("unknown list field %s" % n["f"])
                if p[0] == "G":
                    raise ShapeError("dereference of an indeterminate pointer ->%s in %s at line %s" % (n["f"], f.name, n.get("loc")))
                return ("field", p, n["f"])
            lb = self.lval(f, base, env, heap, vals)
            if lb[0] == "obj":
                return ("field", lb[1], n["f"])
            if lb[0] == "var":
                v = env.get(lb[1])
                if isinstance(v, dict):
                    return ("vfield", lb[1], n["f"])
                if isinstance(v, tuple) and v[0] == "L":
                    return ("obj", ("H" if n["f"] == "head" else "T", v[1]))
            raise ShapeError("unsupported member base in %s" % f.name)
        if k == "un" and n["op"] == "deref":
            p = self.rval(f, n["a"][0], env, heap, vals)
            if p is None or p[0] == "G":
                raise ShapeError("dereference of NULL/indeterminate pointer in %s at line %s" % (f.name, n.get("loc")))
            return ("obj", p)
        if k in ("cast", "decay"):
            return self.lval(f, n["a"][0], env, heap, vals)
        raise ShapeError("unsupported lvalue %s in %s" % (k, f.name))

    def load(self, lv, env, heap):
        if lv[0] == "var":
            return env.get(lv[1])
        if lv[0] == "field":
            self.touched.add(lv[1])
            if (lv[1], lv[2]) not in heap.f:
                raise ShapeError("read of unknown cell %s.%s" % (lv[1], lv[2]))
            return heap.f[(lv[1], lv[2])]
        if lv[0] == "vfield":
            return env[lv[1]][lv[2]]
        if lv[0] == "obj":
            self.touched.add(lv[1])
            return {"next": heap.f[(lv[1], "next")], "prev": heap.f[(lv[1], "prev")]}
        raise ShapeError("load")

    def store(self, lv, v, env, heap):
        if lv[0] == "var":
            env[lv[1]] = dict(v) if isinstance(v, dict) else v
        elif lv[0] == "field":
            self.touched.add(lv[1])
            heap.f[(lv[1], lv[2])] = v
        elif lv[0] == "vfield":
            env[lv[1]][lv[2]] = v
        elif lv[0] == "obj":
            if not isinstance(v, dict):
                raise ShapeError("struct store of non-struct")
            self.touched.add(lv[1])
            heap.f[(lv[1], "next")] = v["next"]
            heap.f[(lv[1], "prev")] = v["prev"]

    def rval(self, f, n, env, heap, vals):
        if n is None:
            return None
        k = n["k"]
        if k == "ref":
            if n["id"] in vals:
                return vals[n["id"]]
            return self.rval(f, f.d(n), env, heap, vals)
        if k == "int":
            return None if n["v"] == 0 else n["v"]
        if k in ("var", "member") or (k == "un" and n["op"] == "deref"):
            return self.load(self.lval(f, n, env, heap, vals), env, heap)
        if k in ("cast", "decay"):
            return self.rval(f, n["a"][0], env, heap, vals)
        if k == "un":
            if n["op"] == "addr":
                lv = self.lval(f, n["a"][0], env, heap, vals)
                if lv[0] == "obj":
                    return lv[1]
                if lv[0] == "var":
                    v = env.get(lv[1])
                    if isinstance(v, dict):
                        return ("V", lv[1])
                raise ShapeError("address of a field")
            if n["op"] == "!":
                return not self.truth(self.rval(f, n["a"][0], env, heap, vals))
        if k == "bin":
            if n["op"] in ("==", "!="):
                a = self.rval(f, n["a"][0], env, heap, vals)
                b = self.rval(f, n["a"][1], env, heap, vals)
                eq = (a == b)
                return eq if n["op"] == "==" else (not eq)
            if n["op"] in ("&&", "||"):
                a = self.truth(self.rval(f, n["a"][0], env, heap, vals))
                b = self.truth(self.rval(f, n["a"][1], env, heap, vals))
                return (a and b) if n["op"] == "&&" else (a or b)
        if k == "call":
            return vals.get(n["id"])
        raise ShapeError("unsupported expression %s in %s" % (k, f.name))

    @staticmethod
    def truth(v):
        if isinstance(v, tuple):
            return True
        return bool(v)

    def exec(self, f, e, env, heap, vals):
        k = e["k"]
        if k == "decl":
            for v in e["vars"]:
                t = f.unit.types[v["t"]]
                if v.get("init") is not None:
                    val = self.rval(f, v["init"], env, heap, vals)
                    env[v["n"]] = dict(val) if isinstance(val, dict) else val
                elif t.get("rec") == "aws_linked_list_node" and not t.get("ptr"):
                    env[v["n"]] = {"next": ("G", 3), "prev": ("G", 4)}
                else:
                    env[v["n"]] = ("G", 5)
            return None
        if k == "bin" and e["op"] == "=":
            v = self.rval(f, e["a"][1], env, heap, vals)
            lv = self.lval(f, e["a"][0], env, heap, vals)
            self.store(lv, v, env, heap)
            vals[e["id"]] = v
            return None
        if k == "call":
            c = e.get("callee")
            if c in ("memset", "__builtin_memset"):
                tgt = e["a"][0]
                p = self.rval(f, tgt, env, heap, vals)
                zero = self.rval(f, e["a"][1], env, heap, vals)
                if isinstance(p, tuple) and zero is None:
                    self.touched.add(p)
                    heap.f[(p, "next")] = None
                    heap.f[(p, "prev")] = None
                    return None
                raise ShapeError("unsupported memset in %s" % f.name)
            if c and self.prog.fn(c) is not None and (c.startswith("aws_linked_list") or c in getattr(self, "allowed", ())):
                args = [self.rval(f, a, env, heap, vals) for a in e["a"]]
                vals[e["id"]] = self.call(c, args, heap)
                return None
            raise ShapeError("call to %s from list code is not modelled" % c)
        if k == "ret":
            v = self.rval(f, e["a"][0], env, heap, vals) if e["a"] and e["a"][0] is not None else None
            return ("ret", v)
        # pure expression elements (conditions): evaluate and cache
        vals[e["id"]] = self.rval(f, e, env, heap, vals)
        return None


def N(i):
    return ("N", i)


def configs_one_list(maxlen=4):
    for n in range(0, maxlen + 1):
        yield [N(i) for i in range(1, n + 1)]


def check_linked_list(prog, report, rule="SHAPE"):
    """all sequence-effect obligations for the list operations; report(ok, instance, detail)"""
    count = 0

    def run(fname, args, heap):
        it = Interp(prog)
        r = it.call(fname, args, heap)
        return r, it

    def wellformed(heap, name, expect, inst, what):
        fw, bw = heap.forward(name), heap.backward(name)
        ok = fw == expect and bw == list(reversed(expect))
        report(ok, inst, what if ok else "%s: forward traversal %s, backward %s, expected %s" % (what, fw, bw, expect))
        return ok

    X = N(99)

    def case(fname, inst, build, call_args, expect_fn, extra=None):
        nonlocal count
        count += 1
        heap = build()
        before = heap.copy()
        try:
            r, it = run(fname, call_args, heap)
        except ShapeError as ex:
            report(False, inst, "abstract execution failed: %s" % ex)
            return
        expect_fn(heap, r, before, it)

    # ---- single-list operations
    for base in configs_one_list():
        L = len(base)
        tag = "len%d" % L

        def build(base=base, garbage=True):
            h = Heap()
            h.new_list("A", base)
            h.loose(X, garbage=True)
            return h

        # push_back / push_front
        case("aws_linked_list_push_back", "push_back:" + tag, build, [("L", "A"), X],
             lambda h, r, b, it, base=base: wellformed(h, "A", base + [X], "push_back:len%d" % len(base), "node appended at the back"))
        case("aws_linked_list_push_front", "push_front:" + tag, build, [("L", "A"), X],
             lambda h, r, b, it, base=base: wellformed(h, "A", [X] + base, "push_front:len%d" % len(base), "node inserted at the front"))
        # empty / front / back / begin / end / rbegin / rend
        case("aws_linked_list_empty", "empty:" + tag, build, [("L", "A")],
             lambda h, r, b, it, base=base: report(bool(r) == (len(base) == 0) and h.f == b.f, "empty:len%d" % len(base), "empty() is true exactly for the empty list and changes nothing"))
        if L:
            case("aws_linked_list_front", "front:" + tag, build, [("L", "A")],
                 lambda h, r, b, it, base=base: report(r == base[0] and h.f == b.f, "front:len%d" % len(base), "front() is the first node"))
            case("aws_linked_list_back", "back:" + tag, build, [("L", "A")],
                 lambda h, r, b, it, base=base: report(r == base[-1] and h.f == b.f, "back:len%d" % len(base), "back() is the last node"))
            case("aws_linked_list_pop_front", "pop_front:" + tag, build, [("L", "A")],
                 lambda h, r, b, it, base=base: (wellformed(h, "A", base[1:], "pop_front:len%d" % len(base), "first node removed"),
                                                 report(r == base[0] and h.f[(base[0], "next")] is None and h.f[(base[0], "prev")] is None, "pop_front-detached:len%d" % len(base), "popped node returned and fully detached")))
            case("aws_linked_list_pop_back", "pop_back:" + tag, build, [("L", "A")],
                 lambda h, r, b, it, base=base: (wellformed(h, "A", base[:-1], "pop_back:len%d" % len(base), "last node removed"),
                                                 report(r == base[-1] and h.f[(base[-1], "next")] is None and h.f[(base[-1], "prev")] is None, "pop_back-detached:len%d" % len(base), "popped node returned and fully detached")))
        case("aws_linked_list_begin", "begin:" + tag, build, [("L", "A")],
             lambda h, r, b, it, base=base: report(r == (base[0] if base else ("T", "A")) and h.f == b.f, "begin:len%d" % len(base), "begin() is the first node or end()"))
        case("aws_linked_list_end", "end:" + tag, build, [("L", "A")], lambda h, r, b, it, base=base: report(r == ("T", "A") and h.f == b.f, "end:len%d" % len(base), "end() is the tail sentinel"))
        case("aws_linked_list_rbegin", "rbegin:" + tag, build, [("L", "A")],
             lambda h, r, b, it, base=base: report(r == (base[-1] if base else ("H", "A")) and h.f == b.f, "rbegin:len%d" % len(base), "rbegin() is the last node or rend()"))
        case("aws_linked_list_rend", "rend:" + tag, build, [("L", "A")], lambda h, r, b, it, base=base: report(r == ("H", "A") and h.f == b.f, "rend:len%d" % len(base), "rend() is the head sentinel"))
        # per-position operations
        for i, n in enumerate(base):
            pos = "%s:pos%d" % (tag, i)
            case("aws_linked_list_remove", "remove:" + pos, build, [n],
                 lambda h, r, b, it, base=base, i=i, n=n: (wellformed(h, "A", base[:i] + base[i + 1:], "remove:len%d:pos%d" % (len(base), i), "node removed, neighbours joined"),
                                                           report(h.f[(n, "next")] is None and h.f[(n, "prev")] is None, "remove-detached:len%d:pos%d" % (len(base), i), "removed node fully detached")))
            case("aws_linked_list_insert_after", "insert_after:" + pos, build, [n, X],
                 lambda h, r, b, it, base=base, i=i: wellformed(h, "A", base[:i + 1] + [X] + base[i + 1:], "insert_after:len%d:pos%d" % (len(base), i), "node inserted after the given node"))
            case("aws_linked_list_insert_before", "insert_before:" + pos, build, [n, X],
                 lambda h, r, b, it, base=base, i=i: wellformed(h, "A", base[:i] + [X] + base[i:], "insert_before:len%d:pos%d" % (len(base), i), "node inserted before the given node"))
            case("aws_linked_list_next", "next:" + pos, build, [n],
                 lambda h, r, b, it, base=base, i=i: report(r == (base[i + 1] if i + 1 < len(base) else ("T", "A")) and h.f == b.f, "next:len%d:pos%d" % (len(base), i), "next() follows the forward link"))
            case("aws_linked_list_prev", "prev:" + pos, build, [n],
                 lambda h, r, b, it, base=base, i=i: report(r == (base[i - 1] if i > 0 else ("H", "A")) and h.f == b.f, "prev:len%d:pos%d" % (len(base), i), "prev() follows the backward link"))
            for j, m in enumerate(base):
                sw = list(base)
                sw[i], sw[j] = sw[j], sw[i]
                case("aws_linked_list_swap_nodes", "swap_nodes:%s:%d,%d" % (tag, i, j), build, [n, m],
                     lambda h, r, b, it, sw=sw, L=len(base), i=i, j=j: wellformed(h, "A", sw, "swap_nodes:len%d:%d,%d" % (L, i, j),
                                                                              "positions exchanged (%s)" % ("identical" if i == j else "adjacent" if abs(i - j) == 1 else "apart")))
        # insert after head sentinel / before tail sentinel
        case("aws_linked_list_insert_after", "insert_after:head:" + tag, build, [("H", "A"), X],
             lambda h, r, b, it, base=base: wellformed(h, "A", [X] + base, "insert_after-head:len%d" % len(base), "insert after the head sentinel"))
        case("aws_linked_list_insert_before", "insert_before:tail:" + tag, build, [("T", "A"), X],
             lambda h, r, b, it, base=base: wellformed(h, "A", base + [X], "insert_before-tail:len%d" % len(base), "insert before the tail sentinel"))

    # ---- two-list operations
    for la in range(0, 4):
        for lb in range(0, 4):
            A = [N(i) for i in range(1, la + 1)]
            Bn = [N(10 + i) for i in range(1, lb + 1)]

            def build2(A=A, Bn=Bn):
                h = Heap()
                h.new_list("A", A)
                h.new_list("B", Bn)
                return h

            t = "%d,%d" % (la, lb)
            case("aws_linked_list_swap_contents", "swap_contents:" + t, build2, [("L", "A"), ("L", "B")],
                 lambda h, r, b, it, A=A, Bn=Bn, t=t: (wellformed(h, "A", Bn, "swap_contents-a:" + t, "a receives b's nodes"), wellformed(h, "B", A, "swap_contents-b:" + t, "b receives a's nodes")))
            case("aws_linked_list_move_all_back", "move_all_back:" + t, build2, [("L", "A"), ("L", "B")],
                 lambda h, r, b, it, A=A, Bn=Bn, t=t: (wellformed(h, "A", A + Bn, "move_all_back-dst:" + t, "src appended to dst"), wellformed(h, "B", [], "move_all_back-src:" + t, "src left empty")))
            case("aws_linked_list_move_all_front", "move_all_front:" + t, build2, [("L", "A"), ("L", "B")],
                 lambda h, r, b, it, A=A, Bn=Bn, t=t: (wellformed(h, "A", Bn + A, "move_all_front-dst:" + t, "src prepended to dst"), wellformed(h, "B", [], "move_all_front-src:" + t, "src left empty")))
            for i, n in enumerate(A):
                for j, m in enumerate(Bn):
                    A2, B2 = list(A), list(Bn)
                    A2[i], B2[j] = m, n
                    case("aws_linked_list_swap_nodes", "swap_nodes-cross:%s:%d,%d" % (t, i, j), build2, [n, m],
                         lambda h, r, b, it, A2=A2, B2=B2, t=t, i=i, j=j: (wellformed(h, "A", A2, "swap_nodes-cross-a:%s:%d,%d" % (t, i, j), "nodes exchanged across lists"),
                                                                         wellformed(h, "B", B2, "swap_nodes-cross-b:%s:%d,%d" % (t, i, j), "nodes exchanged across lists")))
    # init on an arbitrary (garbage) list object
    def build_init():
        h = Heap()
        h.new_list("A", [N(1)])
        for c in (("H", "A"), ("T", "A")):
            h.f[(c, "next")] = ("G", 7)
            h.f[(c, "prev")] = ("G", 8)
        return h

    case("aws_linked_list_init", "init", build_init, [("L", "A")], lambda h, r, b, it: (wellformed(h, "A", [], "init", "init yields the empty list"),
                                                                                          report(h.f[(("H", "A"), "prev")] is None and h.f[(("T", "A"), "next")] is None, "init-sentinels", "outer sentinel links are NULL")))
    return count
