"""NUM: relational numeric abstract interpretation with trace partitioning (DESIGN.md 2.2).

Abstract state = symbolic store (lvalue key -> polynomial over atoms) + a conjunction of linear constraints over
monomials of atoms (a polyhedral domain over the mathematical integers) + per-atom type ranges + facts that become
active when a flag atom is tested (results of checked helpers, stored comparisons).  Entailment is Fourier-Motzkin
elimination with integer tightening; no solver is called and no code is executed.  Machine arithmetic is modelled with
no-wrap side conditions: an unsigned +,-,* denotes the integer result only where the state entails that it stays in
range, otherwise it becomes a fresh atom carrying only its type range.
Loops: keys modified in the loop are havocked at the header (plus monotone-counter and inductive linear relation
candidates kept Houdini-style); every back edge ends the trace."""
import math
from fractions import Fraction

from .cfg import edges

MAXU = {8: 2 ** 8 - 1, 16: 2 ** 16 - 1, 32: 2 ** 32 - 1, 64: 2 ** 64 - 1}
CMP = ("<", "<=", ">", ">=", "==", "!=")
ASSIGN = ("=", "+=", "-=", "*=", "/=", "%=", "&=", "|=", "^=", "<<=", ">>=")


# ----------------------------------------------------------------------------- polynomials
class Poly:
    __slots__ = ("t",)

    def __init__(self, t=None):
        self.t = {k: v for k, v in (t or {}).items() if v != 0}

    @staticmethod
    def const(c):
        return Poly({(): c})

    @staticmethod
    def atom(a):
        return Poly({(a,): 1})

    def __add__(self, o):
        if not isinstance(o, Poly):
            o = Poly.const(o)
        d = dict(self.t)
        for k, v in o.t.items():
            d[k] = d.get(k, 0) + v
        return Poly(d)

    def __neg__(self):
        return Poly({k: -v for k, v in self.t.items()})

    def __sub__(self, o):
        if not isinstance(o, Poly):
            o = Poly.const(o)
        return self + (-o)

    def __mul__(self, o):
        if not isinstance(o, Poly):
            return Poly({k: v * o for k, v in self.t.items()})
        d = {}
        for k1, v1 in self.t.items():
            for k2, v2 in o.t.items():
                k = tuple(sorted(k1 + k2))
                d[k] = d.get(k, 0) + v1 * v2
        return Poly(d)

    def subst(self, mp):
        """replace atoms by polynomials: mp {atom: Poly}"""
        if not (self.atoms() & set(mp)):
            return self
        out = Poly()
        for m, c in self.t.items():
            term = Poly.const(c)
            for a in m:
                term = term * (mp[a] if a in mp else Poly.atom(a))
            out = out + term
        return out

    def is_const(self):
        return all(k == () for k in self.t)

    def cval(self):
        return self.t.get((), 0)

    def atoms(self):
        s = set()
        for k in self.t:
            s.update(k)
        return s

    def monos(self):
        return [k for k in self.t if k != ()]

    def degree(self):
        return max([len(k) for k in self.t] + [0])

    def key(self):
        return tuple(sorted(self.t.items()))

    def __eq__(self, o):
        return isinstance(o, Poly) and self.t == o.t

    def __hash__(self):
        return hash(self.key())

    def __repr__(self):
        if not self.t:
            return "0"
        out = []
        for k, v in sorted(self.t.items()):
            if k == ():
                out.append(str(v))
            else:
                m = "*".join(k)
                out.append(m if v == 1 else ("-" + m if v == -1 else "%d*%s" % (v, m)))
        return " + ".join(out).replace("+ -", "- ")


# ----------------------------------------------------------------------------- Fourier-Motzkin
def _tighten(c):
    """c: dict var->coeff plus '' -> const, meaning sum <= 0.  divide by gcd of variable coeffs, ceil the constant"""
    g = 0
    for k, v in c.items():
        if k != "":
            g = math.gcd(g, abs(v))
    if g > 1:
        d = {k: v // g for k, v in c.items() if k != ""}
        k0 = c.get("", 0)
        d[""] = -((-k0) // g)  # ceil(k0 / g)
        return d
    return c


def infeasible(cons, limit=20000):
    """cons: list of dict(var->int coeff, ''->const) each meaning sum <= 0 over integers (vars are monomials).
    Returns True when provably infeasible."""
    cur = []
    seen = set()
    for c in cons:
        c = _tighten({k: v for k, v in c.items() if v != 0})
        vs = [k for k in c if k != ""]
        if not vs:
            if c.get("", 0) > 0:
                return True
            continue
        key = tuple(sorted(c.items(), key=lambda kv: str(kv[0])))
        if key not in seen:
            seen.add(key)
            cur.append(c)
    # integer equalities (p <= 0 and -p <= 0 both present) are eliminated exactly before Fourier-Motzkin (Pugh's
    # Omega-test step): a unit-coefficient variable is substituted away; an equality without one gets a fresh variable
    # sigma with x_k = -sign(a_k)*m*sigma + sum sign(a_k)*modhat(a_i, m)*x_i (m = |a_k|+1), which strictly shrinks the
    # coefficients until one is a unit.  This is what carries divisibility ("3*(out-out0) = 4*(n0-n)" makes n0-n a
    # multiple of 3) into the inequalities, where the gcd tightening can use it.
    def _key(d):
        return tuple(sorted(d.items(), key=lambda kv: str(kv[0])))

    def _subst(d, x, expr):
        cx = d.get(x, 0)
        if not cx:
            return d
        out = {k: v for k, v in d.items() if k != x}
        for k, v in expr.items():
            out[k] = out.get(k, 0) + cx * v
        return {k: v for k, v in out.items() if v != 0}

    keys = {_key(c): c for c in cur}
    eqs, used = [], set()
    for c in cur:
        kc = _key(c)
        if kc in used:
            continue
        kn = _key({k: -v for k, v in c.items()})
        if kn in keys and kn != kc:
            used.add(kc)
            used.add(kn)
            eqs.append(dict(c))
    if eqs:
        ineqs = [c for c in cur if _key(c) not in used]
        fresh_n = 0
        guard = 0
        while eqs and guard < 200:
            guard += 1
            e = eqs.pop(0)
            vs = [k for k in e if k != ""]
            if not vs:
                if e.get("", 0) != 0:
                    return True
                continue
            g = 0
            for k in vs:
                g = math.gcd(g, abs(e[k]))
            if e.get("", 0) % g != 0:
                return True  # no integer solution
            if g > 1:
                e = {k: v // g for k, v in e.items()}
            units = [k for k in vs if abs(e[k]) == 1]
            if units:
                x = min(units, key=str)
                s = e[x]
                expr = {k: -s * v for k, v in e.items() if k != x}   # x = -s * rest
                eqs = [_subst(q, x, expr) for q in eqs]
                ineqs = [_subst(q, x, expr) for q in ineqs]
                continue
            x = min(vs, key=lambda k: (abs(e[k]), str(k)))
            ax = e[x]
            sgn = 1 if ax > 0 else -1
            m = abs(ax) + 1

            def modhat(a_):
                return a_ - m * ((2 * a_ + m) // (2 * m))
            fresh_n += 1
            sig = ("#s%d" % fresh_n,)
            expr = {sig: -sgn * m}
            for k, v in e.items():
                if k != x:
                    expr[k] = expr.get(k, 0) + sgn * modhat(v)
            expr = {k: v for k, v in expr.items() if v != 0}
            eqs = [_subst(e, x, expr)] + [_subst(q, x, expr) for q in eqs]
            ineqs = [_subst(q, x, expr) for q in ineqs]
        cur = []
        seen2 = set()
        for d in ineqs:
            d = _tighten({k: v for k, v in d.items() if v != 0})
            if not [k for k in d if k != ""]:
                if d.get("", 0) > 0:
                    return True
                continue
            kd = _key(d)
            if kd not in seen2:
                seen2.add(kd)
                cur.append(d)
        for e in eqs:  # (only when the guard tripped) keep what is left as two inequalities
            cur.append(dict(e))
            cur.append({k: -v for k, v in e.items()})
    while True:
        vars_ = {}
        for c in cur:
            for k, v in c.items():
                if k == "":
                    continue
                p, n = vars_.get(k, (0, 0))
                vars_[k] = (p + (v > 0), n + (v < 0))
        if not vars_:
            return False
        # drop constraints on variables bounded on one side only (they can never contribute to a contradiction)
        onesided = {k for k, (p, n) in vars_.items() if p == 0 or n == 0}
        if onesided:
            cur = [c for c in cur if not any(k in onesided for k in c if k != "")]
            continue
        # prefer variables whose coefficients are all +-1 (exact elimination, keeps integer tightening effective),
        # then the cheapest product of positive and negative occurrences
        mx = {}
        for c in cur:
            for k, x in c.items():
                if k != "":
                    mx[k] = max(mx.get(k, 0), abs(x))
        v = min(vars_, key=lambda k: (0 if mx.get(k, 1) == 1 else 1, vars_[k][0] * vars_[k][1], mx.get(k, 1), str(k)))
        pos = [c for c in cur if c.get(v, 0) > 0]
        neg = [c for c in cur if c.get(v, 0) < 0]
        rest = [c for c in cur if c.get(v, 0) == 0]
        if len(pos) * len(neg) + len(rest) > limit:
            return False
        new = list(rest)
        seen = set(tuple(sorted(c.items(), key=lambda kv: str(kv[0]))) for c in rest)
        for a in pos:
            for b in neg:
                ca, cb = a[v], -b[v]
                d = {}
                for k, x in a.items():
                    d[k] = d.get(k, 0) + x * cb
                for k, x in b.items():
                    d[k] = d.get(k, 0) + x * ca
                d = {k: x for k, x in d.items() if x != 0}
                d = _tighten(d)
                vs = [k for k in d if k != ""]
                if not vs:
                    if d.get("", 0) > 0:
                        return True
                    continue
                key = tuple(sorted(d.items(), key=lambda kv: str(kv[0])))
                if key not in seen:
                    seen.add(key)
                    new.append(d)
        cur = new


def _as_con(p):
    d = {}
    for k, v in p.t.items():
        d["" if k == () else k] = v
    return d


# ----------------------------------------------------------------------------- abstract state
class State:
    def __init__(self):
        self.env = {}      # lvalue key -> Poly
        self.meta = {}     # lvalue key -> (rec, field, ctype)
        self.facts = []    # Poly p meaning p <= 0
        self.rng = {}      # atom -> (lo, hi) with None for unbounded
        self.cond = {}     # atom -> {"nz": [Poly...], "z": [Poly...]}  facts activated when the atom is tested
        self.vals = {}     # element id -> Poly | None
        self.cmps = {}     # element id -> (op, Poly, Poly)
        self.extent = {}   # atom (pointer value) -> Poly number of bytes known allocated starting there
        self.trail = []    # branch decisions (for witnesses)
        self.notes = {}

    def copy(self):
        s = State()
        s.env = dict(self.env)
        s.meta = dict(self.meta)
        s.facts = list(self.facts)
        s.rng = dict(self.rng)
        s.cond = dict(self.cond)
        s.vals = dict(self.vals)
        s.cmps = dict(self.cmps)
        s.extent = dict(self.extent)
        s.trail = list(self.trail)
        s.notes = {k: (dict(v) if isinstance(v, dict) else set(v) if isinstance(v, set) else list(v) if isinstance(v, list) else v) for k, v in self.notes.items()}
        return s

    def add(self, p):
        """assume p <= 0"""
        if p.is_const():
            return
        self.facts.append(p)

    def add_eq(self, p):
        self.add(p)
        self.add(-p)


def _nonneg(st, a):
    lo = st.rng.get(a, (None, None))[0]
    return lo is not None and lo >= 0


def relevant(st, goal_atoms, extra=()):
    """constraints transitively sharing atoms with the goal (cone of influence), plus ranges of the atoms involved"""
    atoms = set(goal_atoms)
    facts = list(st.facts) + list(extra)
    used = [False] * len(facts)
    changed = True
    while changed:
        changed = False
        for i, f in enumerate(facts):
            if used[i]:
                continue
            fa = f.atoms()
            if fa & atoms:
                used[i] = True
                if not fa <= atoms:
                    atoms |= fa
                changed = True
    cons = [_as_con(f) for i, f in enumerate(facts) if used[i]]
    monos = set()
    for i, f in enumerate(facts):
        if used[i]:
            monos.update(f.monos())
    for a in atoms:
        lo, hi = st.rng.get(a, (None, None))
        if lo is not None:
            cons.append({(a,): -1, "": lo})
        if hi is not None:
            cons.append({(a,): 1, "": -hi})
    # product monomials of non-negative atoms are non-negative; m*a >= m when a >= 1 is not assumed
    for m in monos:
        if len(m) > 1 and all(_nonneg(st, a) for a in m):
            cons.append({m: -1})
    return cons, atoms


def _floordiv(a, b):
    return a // b


def bounds_prove(cons, goal, rounds=6):
    """interval (bounds-consistency) propagation over the integer constraints `cons` (each sum <= 0), then the goal
    `goal` (dict, sum <= 0) is proved when its maximum over the box is <= 0.  Cheap and order-independent: it settles most
    no-wrap and range side conditions before Fourier-Motzkin is tried."""
    lo, hi = {}, {}
    lin = [c for c in cons if c]
    for _ in range(rounds):
        changed = False
        for c in lin:
            k0 = c.get("", 0)
            items = [(v, x) for v, x in c.items() if v != ""]
            # minimum of each term
            mins = []
            unb = 0
            for v, x in items:
                b = lo.get(v) if x > 0 else hi.get(v)
                if b is None:
                    unb += 1
                    mins.append(None)
                else:
                    mins.append(x * b)
            if unb > 1:
                continue
            tot = sum(m for m in mins if m is not None)
            for j, (v, x) in enumerate(items):
                if unb == 1 and mins[j] is not None:
                    continue
                rest = tot - (mins[j] if mins[j] is not None else 0)
                B = -k0 - rest  # x * v <= B
                if x > 0:
                    nb = B // x
                    if hi.get(v) is None or nb < hi[v]:
                        hi[v] = nb
                        changed = True
                else:
                    nb = -((B) // (-x))  # v >= ceil(B / x) = -floor(B / -x)
                    if lo.get(v) is None or nb > lo[v]:
                        lo[v] = nb
                        changed = True
                if lo.get(v) is not None and hi.get(v) is not None and lo[v] > hi[v]:
                    return True  # the constraints are inconsistent: everything is entailed
        if not changed:
            break
    tot = goal.get("", 0)
    for v, x in goal.items():
        if v == "":
            continue
        b = hi.get(v) if x > 0 else lo.get(v)
        if b is None:
            return False
        tot += x * b
    return tot <= 0


def entails(st, p, extra=()):
    """does the state entail p <= 0 ?"""
    if p.is_const():
        return p.cval() <= 0
    neg = (-p) + 1  # p >= 1  i.e. -p + 1 <= 0
    cons, atoms = relevant(st, p.atoms(), extra=list(extra))
    if bounds_prove(cons, _as_con(p)):
        return True
    cons2 = cons + [_as_con(neg)]  # (its atoms are the goal's: already inside the cone)
    lem = product_lemmas(st, cons2)
    if infeasible(cons2 + lem):
        return True
    # integers: x <= y together with a recorded x != y gives x < y  (goal d + 1 <= 0 with d <= 0 known and d != 0 noted)
    nq = st.notes.get("neq") if hasattr(st, "notes") else None
    if nq:
        d = p - 1
        for q in nq:
            if q == d or q == -d:
                if bounds_prove(cons, _as_con(d)) or infeasible(cons + [_as_con((-d) + 1)] + product_lemmas(st, cons + [_as_con((-d) + 1)])):
                    return True
                break
    return False


def product_lemmas(st, cons):
    """bounded saturation: a linear fact  L <= 0  may be multiplied by an atom a >= 0 when the products are monomials
    that already occur (needed for index*item_size arithmetic)."""
    monos = set()
    for c in cons:
        for k in c:
            if k != "" and len(k) > 1:
                monos.add(k)
    if not monos:
        return []
    mult = set()
    for m in monos:
        for a in m:
            if _nonneg(st, a):
                mult.add(a)
    out = []
    for c in cons:
        if any(k != "" and len(k) > 1 for k in c):
            continue
        if len(c) > 4:
            continue
        for a in mult:
            d = {}
            ok = True
            for k, v in c.items():
                nk = (a,) if k == "" else tuple(sorted(k + (a,)))
                d[nk] = d.get(nk, 0) + v
            # only useful when every produced monomial of degree 2 already occurs
            if all(len(k) == 1 or k in monos for k in d):
                out.append(d)
    return out[:400]


def feasible(st, extra=()):
    """cheap consistency check of the newest facts"""
    if not extra:
        return True
    atoms = set()
    for e in extra:
        if e.is_const():
            if e.cval() > 0:
                return False
            continue
        atoms |= e.atoms()
    if not atoms:
        return True
    cons, _ = relevant(st, atoms, extra=extra)
    return not infeasible(cons, limit=6000)


# ----------------------------------------------------------------------------- the interpreter
_STABLE_RE = None
import os as _os
_TRACE_KEY = _os.environ.get("SA_TRACE_KEY")


def _stable(s):
    """candidate names must not depend on atom numbering (it differs between re-runs)"""
    global _STABLE_RE
    if _STABLE_RE is None:
        import re
        _STABLE_RE = re.compile(r"'\d+")
    return _STABLE_RE.sub("", s)


class Limit(Exception):
    pass


class Num:
    """Per-function analyser.  hooks: object with optional methods
         entry(num, st)                      - add entry assumptions (struct invariants of parameters)
         call(num, st, node, args) -> Poly|None|NotImplemented   - callee summaries (state may be mutated)
    """

    def __init__(self, fn, prog, hooks=None, max_paths=6000):
        self.fn = fn
        self.prog = prog
        self.hooks = hooks
        self.n_atoms = 0
        self.max_paths = max_paths
        self.paths = 0
        self.types = fn.unit.types
        self._loops = None
        self.loop_drop = {}
        self.loop_drop_new = {}
        self.elem_of = {}
        for b in fn.blocks.values():
            for i, e in enumerate(b.elems):
                for n in fn.walk(e):
                    if n.get("k") != "ref" and "id" in n:
                        self.elem_of.setdefault(n["id"], (b.id, i))

    # ---- types
    def ty(self, n):
        t = n.get("t", -1) if n else -1
        return self.types[t] if t is not None and t >= 0 else {}

    def trange(self, t):
        if "w" in t:
            if t.get("bool"):
                return (0, 1)
            if t["u"]:
                return (0, MAXU.get(t["w"], 2 ** t["w"] - 1))
            return (-(2 ** (t["w"] - 1)), 2 ** (t["w"] - 1) - 1)
        if t.get("ptr") or t.get("arr") is not None:
            return (0, MAXU[64])
        return (None, None)

    def fresh(self, st, hint, t=None, rng=None):
        c = getattr(self, "counter", None)
        if c is not None and c is not self:
            c.n_atoms = max(c.n_atoms, self.n_atoms) + 1
            self.n_atoms = c.n_atoms
        else:
            self.n_atoms += 1
        a = "%s'%d" % (hint, self.n_atoms)
        r = rng if rng is not None else (self.trange(t) if t else (None, None))
        st.rng[a] = r
        return a

    # ---- lvalue keys
    def key(self, n, st):
        fn = self.fn
        n = fn.d(n)
        if n is None:
            return None
        k = n["k"]
        if k == "var":
            return ("g:" if n["sc"] in ("global", "slocal") else "v:") + n["n"]
        if k == "member":
            base = fn.d(n["a"][0])
            if n["arrow"]:
                bv = self.val(base, st)
                if bv is None:
                    return None
                return self.base_of(st, bv) + n["f"]
            bk = self.key(base, st)
            if bk is None:
                return None
            return bk + "." + n["f"]
        if k == "un" and n["op"] == "deref":
            # *p where p points to a record: the record object itself
            bv = self.val(fn.d(n["a"][0]), st)
            if bv is None:
                return None
            # *p where p holds the address of a named object (&x handed to an expanded helper's out-parameter): x itself
            for k0, v0 in st.env.items():
                if k0.startswith("&") and v0 == bv:
                    return k0[1:]
            b_ = self.base_of(st, bv)
            return b_[:-1] if b_.endswith(".") else b_
        if k == "cast" or k == "decay":
            return self.key(n["a"][0], st)
        return None

    def base_of(self, st, pv):
        """key prefix of the object a pointer value designates: the named local when it is the address of one that
        lives in the current frame ("v:x."), else "(value)->" """
        if pv is None:
            return None
        if len(pv.t) == 1:
            (m, c), = pv.t.items()
            if c == 1 and len(m) == 1 and m[0].startswith("&"):
                for k, v in st.env.items():
                    if k.startswith("&v:") and v == pv:
                        return k[1:] + "."
        if len(pv.t) == 2 and () in pv.t and pv.t[()] > 0 and self.prog is not None:
            # the address of a record-typed member of a record a known pointer designates: (p + off)-> is p->member.
            (m,) = [m_ for m_ in pv.t if m_]
            rec = st.notes.get("ptype", {}).get(m[0]) if (len(m) == 1 and pv.t[m] == 1) else None
            off, path = pv.t[()], []
            while rec:
                R = self.prog.records.get(rec)
                nxt = None
                for f in (R or {}).get("fields", []):
                    ft = R["_unit"].types[f["t"]]
                    if ft.get("rec") and not ft.get("ptr") and f["off"] <= off < f["off"] + (ft.get("sz") or 0):
                        nxt = (f, ft)
                if nxt is None:
                    break
                path.append(nxt[0]["n"])
                off -= nxt[0]["off"]
                rec = nxt[1]["rec"]
                if off == 0:
                    return "(" + m[0] + ")->" + ".".join(path) + "."
        return "(" + repr(pv) + ")->"

    def obj_of(self, st, pv):
        b = self.base_of(st, pv)
        return b[:-1] if b.endswith(".") else b[:-2]

    def quot_rem(self, st, a, c, t):
        """(a div c, a mod c) for a >= 0, c > 0: one pair of atoms per (a, c) in a state"""
        memo = st.notes.get("quot", {})
        k = (a.key(), c)
        if k in memo:
            return memo[k]
        q = self.fresh(st, "quot", None, (0, None))
        r = self.fresh(st, "rem", None, (0, c - 1))
        st.add_eq(Poly.atom(q) * c + Poly.atom(r) - a)
        st.add(Poly.atom(q) - a)
        memo = dict(memo)
        memo[k] = (Poly.atom(q), Poly.atom(r))
        st.notes["quot"] = memo
        return memo[k]

    # ---- memory cells: the value last read at an address stays what it was until something may have stored there
    def _tracked(self, st, addr):
        """the tracked objects an address lies in: pointer atoms with a known extent, directly or through a pointer a
        summary derived from them (memchr results)"""
        out = set()
        der = st.notes.get("derived", {})
        for m, cf in addr.t.items():
            if len(m) == 1 and cf == 1:
                if m[0] in st.extent and not m[0].startswith("&"):
                    out.add(m[0])
                elif m[0] in der:
                    out |= der[m[0]]
        return out

    def cell_read(self, st, addr, size, t):
        cells = st.notes.get("cells", [])
        bases = self._tracked(st, addr)
        if bases:
            for (a2, s2, v2) in cells:
                if s2 == size and a2 == addr:
                    return v2
            for (a2, s2, v2) in cells[-12:]:
                if s2 == size and (a2.atoms() & bases):
                    d = addr - a2
                    if entails(st, d) and entails(st, -d):
                        return v2
        a = Poly.atom(self.fresh(st, "elem", t))
        if bases:
            st.notes["cells"] = list(cells) + [(addr, size, a)]
        return a

    def cell_store(self, st, addr):
        """a store to addr (None: anywhere): forget the cells it may overwrite.  Two different tracked objects do not
        overlap (the storage of an output buffer is not the input view: the API's restrict contract)."""
        cells = st.notes.get("cells")
        if not cells:
            return
        bases = self._tracked(st, addr) if addr is not None else set()
        if not bases:
            st.notes["cells"] = []
            return
        st.notes["cells"] = [cl for cl in cells if self._tracked(st, cl[0]) and not (self._tracked(st, cl[0]) & bases)]

    def _never_written(self, gname):
        memo = self.prog.__dict__.setdefault("_global_written", {})
        if gname not in memo:
            w = False
            for f in list(self.prog.fns.values()) + [f for fs in getattr(self.prog, "by_key", {}).values() for f in (fs if isinstance(fs, list) else [fs])]:
                if not getattr(f, "blocks", None):
                    continue
                for e in f.all_events():
                    if e.kind == "access" and e.node["k"] == "var" and e.node["n"] == gname and e.node.get("sc") in ("global", "slocal") and e.mode in ("w", "rw", "addr"):
                        w = True
                        break
                if w:
                    break
            memo[gname] = not w
        return memo[gname]

    def const_table(self, bn):
        """the values of a const-qualified global array with a constant initialiser, when bn designates one"""
        fn = self.fn
        x = bn
        while x is not None and x["k"] in ("decay", "cast"):
            x = fn.d(x["a"][0])
        if x is None or x["k"] != "var" or x.get("sc") not in ("global", "slocal") or self.prog is None:
            return None
        g = self.prog.globals.get(x["n"])
        if not g or not isinstance(g.get("init"), dict):
            return None
        t = self.ty(x)
        if t.get("arr") is None:
            # a file-scope pointer initialised with a string literal that no function ever assigns is as good as the array
            if not (t.get("ptr") and g.get("static") and "str" in g["init"] and self._never_written(x["n"])):
                return None
        elif not g.get("const"):
            return None
        ini = g["init"]
        if "str" in ini:
            vals = [ord(ch) for ch in ini["str"]] + [0]
        elif "array" in ini and all(isinstance(e, dict) and isinstance(e.get("int"), int) for e in ini["array"]):
            vals = [e["int"] for e in ini["array"]]
        else:
            return None
        if t.get("arr") and t["arr"] > len(vals):
            vals = vals + [0] * (t["arr"] - len(vals))
        return vals

    def simple_bounds(self, st, p):
        """integer interval of p from its constant, the atom ranges and the single-atom facts (cheap, incomplete)"""
        if p.is_const():
            return (p.cval(), p.cval())
        if len([m for m in p.t if m]) != 1:
            return (None, None)
        (m, cf), = [(m, cf) for m, cf in p.t.items() if m]
        if len(m) != 1:
            return (None, None)
        a = m[0]
        k0 = p.t.get((), 0)
        lo, hi = st.rng.get(a, (None, None))
        for f in st.facts:
            if len(f.t) <= 2 and all((not mm) or mm == (a,) for mm in f.t) and (a,) in f.t:
                ca, cc = f.t[(a,)], f.t.get((), 0)
                # ca*a + cc <= 0
                if ca > 0:
                    b = (-cc) // ca
                    hi = b if hi is None or b < hi else hi
                else:
                    b = -((-cc) // (-ca))  # ceil(cc / -ca)
                    lo = b if lo is None or b > lo else lo
        if cf > 0:
            return (None if lo is None else cf * lo + k0, None if hi is None else cf * hi + k0)
        return (None if hi is None else cf * hi + k0, None if lo is None else cf * lo + k0)

    def member_key(self, basekey, arrow_val, f):
        return basekey + "." + f

    def read(self, n, st):
        """value of an lvalue node"""
        k = self.key(n, st)
        t = self.ty(n)
        if k is None:
            return Poly.atom(self.fresh(st, "mem", t))
        if k.endswith("->"):
            k = k  # whole record: no numeric value
        if k in st.env:
            return st.env[k]
        if "w" not in t and not t.get("ptr"):
            if t.get("arr") is not None:
                # array object: its value in pointer context is its address
                a = self.fresh(st, "&" + k.split(":")[-1].replace("(", "").replace(")", ""), None, (1, MAXU[64]))
                st.env[k] = Poly.atom(a)
                if t["arr"] >= 0:
                    st.extent[a] = Poly.const(t["arr"] * t.get("esz", 1))
                elif self.hooks is not None and hasattr(self.hooks, "flex_extent"):
                    nn0 = self.fn.d(n)
                    ext = self.hooks.flex_extent(self, st, k, nn0.get("rec"), nn0.get("f"), t) if nn0["k"] == "member" else None
                    if ext is not None:
                        st.extent[a] = ext
                return st.env[k]
            return None
        if k.startswith("g:") and self.prog is not None and "w" in t:
            g = self.prog.globals.get(k[2:])
            if g and g.get("const") and isinstance(g.get("init"), dict) and isinstance(g["init"].get("int"), int):
                return Poly.const(g["init"]["int"])  # a const-qualified scalar with a constant initialiser
        hint = k.split(":")[-1] if k[:2] in ("v:", "g:") else k
        hint = hint.replace("(", "").replace(")", "")
        a = self.fresh(st, hint, t)
        st.env[k] = Poly.atom(a)
        if st.notes.setdefault("orig", {}).get(k, "") is not None:
            st.notes["orig"][k] = a  # first read, or re-read after a callee may have changed it: (re)base
        if t.get("ptr") and t.get("rec") and t.get("psz"):
            st.extent[a] = Poly.const(t["psz"])  # a pointer to a record designates (at least) one whole object
        if t.get("ptr") and t.get("rec"):
            pt_ = dict(st.notes.get("ptype", {}))
            pt_[a] = t["rec"]
            st.notes["ptype"] = pt_
        if k.startswith("g:") and self.prog is not None and t.get("ptr"):
            g = self.prog.globals.get(k[2:])
            if g and g.get("const") is not None and isinstance(g.get("init"), dict) and "str" in g["init"] and g.get("static"):
                # a file-scope pointer initialised with a string literal and never reassigned (checked by the caller's WHO rule)
                st.extent[a] = Poly.const(len(g["init"]["str"]) + 1)
                st.add(Poly.const(1) - Poly.atom(a))
        if self.fn.d(n)["k"] == "var" and self.fn.d(n).get("sc") == "param" and t.get("ptr"):
            st.notes.setdefault("patoms", set()).add(a)
            if self.hooks is not None and hasattr(self.hooks, "noalias") and self.fn.d(n)["n"] in self.hooks.noalias(self.fn.name):
                st.notes.setdefault("noalias", set()).add(a)  # designates an object nothing else refers to (checked by the rule that says so)
        nn = self.fn.d(n)
        if nn["k"] == "member":
            st.meta[k] = (nn.get("rec"), nn["f"], t.get("c"))
            if self.hooks is not None and hasattr(self.hooks, "fresh_field"):
                self.hooks.fresh_field(self, st, k, nn.get("rec"), nn["f"], a)
        else:
            st.meta[k] = (None, None, t.get("c"))
        return st.env[k]

    def field(self, st, key, rec, f, ftype=None):
        """value of field f of the record object whose some field has lvalue key `key` (sibling access for invariants)"""
        cut = key.rfind("->")
        cut2 = key.rfind(".")
        c = max(cut + 2 if cut >= 0 else -1, cut2 + 1 if cut2 >= 0 else -1)
        k2 = key[:c] + f
        if k2 in st.env:
            return st.env[k2]
        if self.prog is not None:
            # a field of a const-qualified file-scope object with a constant initialiser (reached through its address)
            nm_ = k2.replace("(", "").replace(")", "").replace("&", "").split(":")[-1]
            for sep_ in ("->", "."):
                if nm_.endswith(sep_ + f) and nm_[: -len(sep_ + f)] in self.prog.globals:
                    g_ = self.prog.globals[nm_[: -len(sep_ + f)]]
                    fi_ = (g_.get("init") or {}).get("struct", {}).get(f) if g_.get("const") and isinstance(g_.get("init"), dict) else None
                    if isinstance(fi_, dict) and isinstance(fi_.get("int"), int):
                        st.env[k2] = Poly.const(fi_["int"])
                        return st.env[k2]
        R = self.prog.records.get(rec) if self.prog else None
        ft = {}
        if R:
            for fd in R["fields"]:
                if fd["n"] == f:
                    ft = R["_unit"].types[fd["t"]]
        a = self.fresh(st, k2.replace("(", "").replace(")", "").split(":")[-1], ft if ft else None)
        st.env[k2] = Poly.atom(a)
        if st.notes.setdefault("orig", {}).get(k2, "") is not None:
            st.notes["orig"][k2] = a
        st.meta[k2] = (rec, f, ft.get("c"))
        if self.hooks is not None and hasattr(self.hooks, "fresh_field"):
            self.hooks.fresh_field(self, st, k2, rec, f, a)
        return st.env[k2]

    def write(self, n, v, st):
        fn = self.fn
        nn = fn.d(n)
        k = self.key(nn, st)
        t = self.ty(nn)
        if k is None:
            # store through an unknown pointer / array element: type-based invalidation of field keys
            self.havoc_type(st, t.get("c"))
            addr = None
            if nn["k"] == "index":
                addr = self.val(fn.d(nn["a"][0]), st)
            elif nn["k"] == "un" and nn["op"] == "deref":
                addr = self.val(fn.d(nn["a"][0]), st)
            self.cell_store(st, addr)
            st.notes.setdefault("memw", []).append((nn.get("loc", [0])[0], repr(addr) if addr is not None else "?"))
            return
        if nn["k"] == "member":
            rec, f = nn.get("rec"), nn["f"]
            st.notes.setdefault("orig", {}).setdefault(k, None)
            if v is not None and len(v.t) == 1 and self.base_atom(k) not in st.notes.get("patoms", ()):
                (m, c), = v.t.items()
                # (the same for an object that is not the caller's: a local view built on the way to one that is handed on)
                if c == 1 and len(m) == 1 and m[0].startswith("wrap'") and int(m[0].split("'")[1]) > getattr(self, "_mark", 10 ** 9):
                    st.notes.setdefault("wrapstore_local", []).append((nn.get("loc", [0])[0], rec, f, st.notes.get("wrapped", ["?"])[-1]))
            if v is not None and len(v.t) == 1 and self.base_atom(k) in st.notes.get("patoms", ()):
                (m, c), = v.t.items()
                if c == 1 and len(m) == 1 and m[0].startswith("wrap'") and int(m[0].split("'")[1]) > getattr(self, "_mark", 10 ** 9):
                    st.notes.setdefault("wrapstore", []).append((nn.get("loc", [0])[0], rec, f, st.notes.get("wrapped", ["?"])[-1]))
            for k2 in list(st.env):
                m = st.meta.get(k2)
                if k2 != k and m and m[0] == rec and m[1] == f and self.may_alias(k, k2, st):
                    del st.env[k2]
            st.meta[k] = (rec, f, t.get("c"))
        else:
            st.meta[k] = (None, None, t.get("c"))
        # sub-keys of a struct-valued lvalue are stale
        for k2 in list(st.env):
            if k2 != k and (k2.startswith(k + ".") or k2.startswith(k + "->")):
                del st.env[k2]
        if nn["k"] == "var":
            pass
        if v is None:
            st.env.pop(k, None)
        else:
            st.env[k] = v

    def base_atom(self, key):
        """the single atom naming the base pointer of a key "(atom)->f" / None"""
        if key.startswith("(") and ")->" in key:
            b = key[1:key.index(")->")]
            if "+" not in b and "*" not in b and " " not in b and not b[:1].isdigit() and not b.startswith("-"):
                return b
        return None

    def may_alias(self, k1, k2, st):
        """may two field keys denote the same object?  Distinct pointer *parameters* are assumed to designate distinct
        record objects (API contract; most are declared restrict), and a local record object is distinct from anything
        reached through a pointer."""
        l1, l2 = k1.startswith("v:"), k2.startswith("v:")
        if l1 or l2:
            return False  # a named local object (different keys => different objects or different members)
        b1, b2 = self.base_atom(k1), self.base_atom(k2)
        if b1 and b1 == b2:
            p1, p2 = k1[k1.index(")->") + 3:], k2[k2.index(")->") + 3:]
            if not (p1 == p2 or p1.startswith(p2 + ".") or p2.startswith(p1 + ".") or not p1 or not p2):
                return False  # two different members of one object
        pa = st.notes.get("patoms", ())
        na = st.notes.get("noalias", ())
        if na and b1 != b2 and (b1 in na or b2 in na):
            return False
        if b1 and b2 and b1 != b2:
            a1, a2 = b1.startswith("&"), b2.startswith("&")  # the address of a named local object
            if (b1 in pa or a1) and (b2 in pa or a2):
                return False
        return True

    def havoc_type(self, st, ctype):
        """a store of C type ctype through a pointer of unknown provenance: every tracked field of that type may have
        changed - except the fields of a named local record whose address has not been handed to any call so far on
        this path (nothing else can hold a pointer to it)"""
        esc = st.notes.get("escaped", ())
        for k2 in list(st.env):
            m = st.meta.get(k2)
            if m and m[1] is not None and (ctype is None or m[2] == ctype):
                if k2.startswith("v:") and k2[2:].split(".")[0] not in esc:
                    continue
                del st.env[k2]

    def note_escapes(self, e, st):
        """locals whose address is an argument of this call (or stored by it) may from now on be reached by other code"""
        fn = self.fn
        new = None
        for a in e.get("a", []):
            for x in fn.walk(a, follow_refs=True):
                if x["k"] == "un" and x["op"] == "addr":
                    t_ = fn.d(x["a"][0])
                    while t_ is not None and t_["k"] in ("member", "index") and not t_.get("arrow"):
                        t_ = fn.d(t_["a"][0])
                    if t_ is not None and t_["k"] == "var" and t_.get("sc") in ("local", "param"):
                        new = (new or set()) | {t_["n"]}
                elif x["k"] == "decay":
                    t_ = fn.d(x["a"][0])
                    while t_ is not None and t_["k"] == "member" and not t_.get("arrow"):
                        t_ = fn.d(t_["a"][0])
                    if t_ is not None and t_["k"] == "var" and t_.get("sc") in ("local", "param"):
                        new = (new or set()) | {t_["n"]}
        if new:
            st.notes["escaped"] = set(st.notes.get("escaped", ())) | new

    def havoc_rec(self, st, rec):
        recs = {rec}
        # nested by-value records
        R = self.prog.records if self.prog else {}
        changed = True
        while changed:
            changed = False
            for r in list(recs):
                for f in (R.get(r) or {}).get("fields", []):
                    ft = (R[r]["_unit"].types[f["t"]] if "_unit" in R[r] else {})
                    if ft.get("rec") and not ft.get("ptr") and ft["rec"] not in recs:
                        recs.add(ft["rec"])
                        changed = True
        for k2 in list(st.env):
            m = st.meta.get(k2)
            if m and m[0] in recs:
                del st.env[k2]

    def havoc_prefix(self, st, k):
        for k2 in list(st.env):
            if k2 == k or k2.startswith(k + ".") or k2.startswith(k + "->") or (k.endswith("->") and k2.startswith(k)):
                del st.env[k2]

    # ---- evaluation
    def norm(self, v, t, st, hint="t"):
        """value v computed in mathematical integers, stored in C type t: exact when provably in range"""
        if v is None or "w" not in t:
            return v
        lo, hi = self.trange(t)
        if v.is_const():
            c = v.cval()
            if lo <= c <= hi:
                return v
            if t["u"]:
                return Poly.const(c % (hi + 1))
            return Poly.atom(self.fresh(st, hint, t))
        if not t["u"]:
            return v  # signed overflow is undefined behaviour: assume it does not happen
        if entails(st, v - hi) and entails(st, Poly.const(lo) - v):
            return v
        # the same mathematical value reduced modulo the same width is the same machine value: reuse its atom
        memo = st.notes.setdefault("wrapmemo", {})
        mk = (repr(v), t.get("w"), t.get("u"))
        if mk in memo:
            return Poly.atom(memo[mk])
        a = self.fresh(st, "wrap", t)
        memo[mk] = a
        st.notes.setdefault("wrapped", []).append(repr(v))
        # the machine value differs from the mathematical one by a whole number of 2^w: W = v - 2^w * K
        if v.degree() <= 1 and entails(st, -v):
            M = hi + 1
            K = self.fresh(st, "carry", None, (0, None))
            st.add_eq(Poly.atom(a) - v + Poly.atom(K) * M)
            st.notes["carries"] = list(st.notes.get("carries", [])) + [(K, a)]
            for j in (1, 3, 7):
                if entails(st, v - (j + 1) * M + 1):
                    st.add(Poly.atom(K) - j)
                    break
        return Poly.atom(a)

    def val(self, n, st):
        """numeric value (Poly) of expression n in state st, or None when not numeric/unknown. Pure except for
        creating atoms; side effects of assignments / ++ are applied by exec_elem."""
        fn = self.fn
        if n is None:
            return None
        k = n["k"]
        if k == "ref":
            i, hops = n["id"], 0
            while i not in st.vals and (fn.nodes.get(i) or {}).get("k") == "ref" and hops < 4:
                i, hops = fn.nodes[i]["id"], hops + 1  # the id of a dropped wrapper: follow the alias to the element itself
            if i in st.vals:
                return st.vals[i]
            t = fn.d(n)
            # an element not executed on this path (should not happen): evaluate structurally
            return self.val(t, st) if t is not None else None
        t = self.ty(n)
        if k == "int":
            return Poly.const(n["v"])
        if k in ("var", "member"):
            if k == "var" and n["sc"] == "other":
                return None
            if k == "member" and not n.get("arrow") and self.prog is not None:
                # a field of a const-qualified file-scope object with a constant initialiser that nothing writes
                b_ = fn.d(n["a"][0])
                if b_ is not None and b_["k"] == "var" and b_.get("sc") in ("global", "slocal"):
                    g_ = self.prog.globals.get(b_["n"])
                    fi_ = ((g_ or {}).get("init") or {}).get("struct", {}).get(n["f"]) if g_ and g_.get("const") and isinstance(g_.get("init"), dict) else None
                    if isinstance(fi_, dict) and isinstance(fi_.get("int"), int):
                        return Poly.const(fi_["int"])
            return self.read(n, st)
        if k == "index":
            bn = fn.d(n["a"][0])
            b = self.val(bn, st)
            i = self.val(n["a"][1], st)
            tab = self.const_table(bn)
            if tab is not None and i is not None:
                lo, hi = self.simple_bounds(st, i)
                lo = 0 if lo is None or lo < 0 else lo
                hi = len(tab) - 1 if hi is None or hi >= len(tab) else hi
                if lo <= hi:
                    vals = tab[lo:hi + 1]
                    if min(vals) == max(vals):
                        return Poly.const(vals[0])
                    a = self.fresh(st, "tab", t, (min(vals), max(vals)))
                    tvn = dict(st.notes.get("tabvals", {}))
                    tvn[a] = tuple(sorted(set(vals)))
                    st.notes["tabvals"] = tvn
                    tix = dict(st.notes.get("tabidx", {}))
                    tix[a] = (tuple(tab), i)  # which table, read at which index
                    st.notes["tabidx"] = tix
                    return Poly.atom(a)
            if b is not None and i is not None and "w" in t:
                bt = self.ty(bn)
                esz = bt.get("psz") or bt.get("esz") or (t["w"] // 8)
                return self.cell_read(st, b + i * esz, t["w"] // 8, t)
            a = self.fresh(st, "elem", t)
            return Poly.atom(a)
        if k == "decay":
            x = fn.d(n["a"][0])
            if x is not None and x["k"] == "str":
                a = self.fresh(st, "str", None, (1, MAXU[64]))
                st.extent[a] = Poly.const(x.get("n", len(x["v"])) + 1)
                return Poly.atom(a)
            return self.read(x, st) if x is not None and x["k"] in ("var", "member") else self.addr_of(x, st)
        if k == "cast":
            v = self.val(n["a"][0], st)
            ft = self.types[n["ft"]] if n.get("ft", -1) >= 0 else {}
            if "w" in t and ("w" in ft or ft.get("ptr")):
                if v is None:
                    return Poly.atom(self.fresh(st, "cast", t))
                lo, hi = self.trange(t)
                if v.is_const() and lo <= v.cval() <= hi:
                    return v
                if entails(st, v - hi) and entails(st, Poly.const(lo) - v):
                    return v
                # the same value converted to the same type is the same machine value
                cm = st.notes.get("castmemo", {})
                ck = (repr(v), t.get("w"), t.get("u"))
                if ck in cm:
                    return Poly.atom(cm[ck])
                a_ = self.fresh(st, "cast", t)
                cm = dict(cm)
                cm[ck] = a_
                st.notes["castmemo"] = cm
                return Poly.atom(a_)
            if t.get("ptr"):
                return v
            if "w" in t:
                return Poly.atom(self.fresh(st, "cast", t))
            return v
        if k == "un":
            op = n["op"]
            x = n["a"][0]
            if op == "deref":
                pv = self.val(x, st)
                if "w" in t or t.get("ptr"):
                    if pv is not None:
                        for k0, v0 in st.env.items():
                            if k0.startswith("&") and v0 == pv and (k0[1:].startswith("v:") or k0[1:] in st.env):
                                # *p where p holds the address of a named object: the object's own value
                                if k0[1:] not in st.env:
                                    st.env[k0[1:]] = Poly.atom(self.fresh(st, k0[1:].split(":")[-1], t))
                                    st.meta[k0[1:]] = (None, None, t.get("c"))
                                return st.env[k0[1:]]
                    if pv is not None and "w" in t:
                        return self.cell_read(st, pv, t["w"] // 8, t)
                    if pv is not None and t.get("ptr") and self._tracked(st, pv):
                        return self.cell_read(st, pv, 8, t)  # a pointer stored in a tracked object: the same until the next store
                    return Poly.atom(self.fresh(st, "deref", t))
                return None
            if op == "addr":
                return self.addr_of(fn.d(x), st)
            if op == "-":
                v = self.val(x, st)
                return self.norm(-v, t, st) if v is not None else None
            if op == "+":
                return self.val(x, st)
            if op == "!":
                v = self.val(x, st)
                a = self.fresh(st, "not", None, (0, 1))
                if v is not None:
                    # a != 0  <=>  v == 0
                    st.cond[a] = {"nz": [("eq0", v)], "z": [("ne0", v)]}
                return Poly.atom(a)
            if op == "~":
                self.val(x, st)
                return Poly.atom(self.fresh(st, "bnot", t))
            if op in ("post++", "post--", "pre++", "pre--"):
                v = self.val(x, st)
                if v is None:
                    return None
                step = self.step_of(fn.d(x))
                nv = v + step if "++" in op else v - step
                return v if op.startswith("post") else self.norm(nv, self.ty(fn.d(x)), st)
            return None
        if k == "bin":
            op = n["op"]
            if op in ASSIGN:
                if op == "=":
                    return self.val(n["a"][1], st)
                return self.compound(n, st)
            if op == ",":
                self.val(n["a"][0], st)
                return self.val(n["a"][1], st)
            a, b = self.val(n["a"][0], st), self.val(n["a"][1], st)
            if op in CMP:
                if a is not None and b is not None and getattr(self, "eager_truth", True):
                    tv = self.cmp_truth(st, op, a, b)  # what the path already decided (short-circuit operands in value context)
                    if tv is not None:
                        return Poly.const(1 if tv else 0)
                at = self.fresh(st, "cmp", None, (0, 1))
                if a is not None and b is not None:
                    st.cond[at] = {"nz": [("cmp", op, a, b)], "z": [("cmp", NEGOP[op], a, b)]}
                return Poly.atom(at)
            if op in ("&&", "||"):
                known = [x for x in (a, b) if x is not None]
                tvs = [self.truth(st, x) for x in (a, b)]
                # one operand decides the result (both operands were evaluated above for their effects)
                if op == "||" and True in tvs:
                    return Poly.const(1)
                if op == "&&" and False in tvs:
                    return Poly.const(0)
                if tvs == [True, True]:
                    return Poly.const(1)
                if tvs == [False, False]:
                    return Poly.const(0)
                known = [x for x, tv_ in zip((a, b), tvs) if x is not None and tv_ is None]
                neutral = True if op == "&&" else False
                if len(known) == 1 and tvs.count(neutral) == 1:
                    # the other operand is decided and neutral: the result is the truth of this one
                    at = self.fresh(st, "log", None, (0, 1))
                    st.cond[at] = {"nz": [("ne0", known[0])], "z": [("eq0", known[0])]}
                    return Poly.atom(at)
                at = self.fresh(st, "log", None, (0, 1))
                if known:
                    if op == "&&":
                        st.cond[at] = {"nz": [("ne0", x) for x in known], "z": []}
                    else:
                        st.cond[at] = {"nz": [], "z": [("eq0", x) for x in known]}
                return Poly.atom(at)
            return self.arith(op, n, a, b, t, st)
        if k == "cond":
            cid = n["a"][0].get("id") if n["a"][0] is not None else None
            taken = st.notes.get("tern", {}).get(cid)
            if taken is not None:
                return self.val(n["a"][1] if taken else n["a"][2], st)
            c = self.val(n["a"][0], st)
            tv_ = self.truth(st, c)
            if tv_ is not None:
                return self.val(n["a"][1] if tv_ else n["a"][2], st)  # the condition is decided on this path
            x, y = self.val(n["a"][1], st), self.val(n["a"][2], st)
            if x is not None and y is not None and x == y:
                return x
            if "w" in t or t.get("ptr"):
                at = self.fresh(st, "sel", t)
                if c is not None and x is not None and y is not None:
                    # activate when the condition's truth is learnt later; also bound by both arms when comparable
                    P = Poly.atom(at)
                    st.notes.setdefault("sel", {})[at] = (c, x, y)
                    if entails(st, x - y):
                        st.add(x - P)
                        st.add(P - y)
                    elif entails(st, y - x):
                        st.add(y - P)
                        st.add(P - x)
                return Poly.atom(at)
            return None
        if k == "call":
            # a call that is not its own CFG element (does not happen with clang's CFG) - treat as unknown
            return Poly.atom(self.fresh(st, "call", t)) if ("w" in t or t.get("ptr")) else None
        if k in ("str",):
            a = self.fresh(st, "str", None, (1, MAXU[64]))
            st.extent[a] = Poly.const(n.get("n", 0) + 1)
            return Poly.atom(a)
        if k == "float":
            return None
        if k in ("init", "complit", "zeroinit", "other", "stmtexpr"):
            return None
        return None

    def step_of(self, lv):
        t = self.ty(lv)
        if t.get("ptr"):
            return t.get("psz", 1) or 1
        return 1

    def addr_of(self, x, st):
        """&x as a pointer value: a stable atom per object key"""
        fn = self.fn
        if x is None:
            return None
        if x["k"] == "index":
            b = self.val(fn.d(x["a"][0]), st)
            i = self.val(x["a"][1], st)
            bt = self.ty(fn.d(x["a"][0]))
            esz = bt.get("psz") or bt.get("esz") or 1
            if b is not None and i is not None:
                return b + i * esz
            return Poly.atom(self.fresh(st, "addr", None, (1, MAXU[64])))
        if x["k"] == "un" and x["op"] == "deref":
            return self.val(fn.d(x["a"][0]), st)
        if x["k"] == "member" and x["arrow"]:
            bv = self.val(fn.d(x["a"][0]), st)
            off = self.field_off(x)
            if bv is not None and off is not None:
                return bv + off
        k = self.key(x, st)
        if k is None:
            return Poly.atom(self.fresh(st, "addr", None, (1, MAXU[64])))
        ak = "&" + k
        if ak not in st.env:
            a = self.fresh(st, "&" + k.split(":")[-1], None, (1, MAXU[64]))
            st.env[ak] = Poly.atom(a)
            t = self.ty(x)
            sz = t.get("sz") or (t.get("arr") * t.get("esz", 1) if t.get("arr") is not None else None) or (t.get("w") // 8 if "w" in t else None) or (t.get("flt") // 8 if t.get("flt") else None) or (8 if t.get("ptr") else None)
            if sz:
                st.extent[a] = Poly.const(sz)
        return st.env[ak]

    def field_off(self, m):
        R = self.prog.records.get(m.get("rec")) if self.prog else None
        if not R:
            return None
        for f in R["fields"]:
            if f["n"] == m["f"]:
                return f["off"]
        return None

    def compound(self, n, st):
        op = n["op"][:-1]
        a, b = self.val(n["a"][0], st), self.val(n["a"][1], st)
        t = self.ty(self.fn.d(n["a"][0]))
        return self.arith(op, n, a, b, t, st, lhs_node=self.fn.d(n["a"][0]))

    def arith(self, op, n, a, b, t, st, lhs_node=None):
        fn = self.fn
        if a is None or b is None:
            return Poly.atom(self.fresh(st, "op", t)) if ("w" in t or t.get("ptr")) else None
        la = fn.d(n["a"][0])
        lb = fn.d(n["a"][1])
        ta, tb = self.ty(la), self.ty(lb)
        if op in ("+", "-"):
            pa, pb = ta.get("ptr") or ta.get("arr") is not None, tb.get("ptr") or tb.get("arr") is not None
            if pa and not pb:
                esz = ta.get("psz") or ta.get("esz") or 1
                v = a + b * esz if op == "+" else a - b * esz
                return v
            if pb and not pa and op == "+":
                esz = tb.get("psz") or tb.get("esz") or 1
                return b + a * esz
            if pa and pb and op == "-":
                esz = ta.get("psz") or 1
                if esz == 1:
                    return a - b  # ptrdiff_t: signed, no wrap
                d_ = a - b
                if all(cf % esz == 0 for cf in d_.t.values()):
                    # the byte difference is a multiple of the element size term by term: the quotient is exact
                    return Poly({m_: cf // esz for m_, cf in d_.t.items()})
                q = self.fresh(st, "pdiff", None, (None, None))
                st.add_eq(Poly.atom(q) * esz - (a - b))
                return Poly.atom(q)
            v = a + b if op == "+" else a - b
            return self.norm(v, t, st, "sum" if op == "+" else "diff")
        if op == "*":
            if a.is_const() or b.is_const() or (a.degree() + b.degree() <= 2 and len(a.t) * len(b.t) <= 6):
                return self.norm(a * b, t, st, "prod")
            return Poly.atom(self.fresh(st, "prod", t))
        if op == "|":
            # disjoint bit ranges: (multiple of 2^k) | (value in [0, 2^k)) is their sum
            for hi_, lo_ in ((a, b), (b, a)):
                if hi_.is_const() and hi_.cval() == 0:
                    return lo_
                for k_ in (1, 2, 3, 4, 5, 6, 7, 8, 10, 12, 16, 24, 32):
                    m_ = 2 ** k_
                    if all(cf % m_ == 0 for cf in hi_.t.values()) and entails(st, -lo_) and entails(st, lo_ - (m_ - 1)) and entails(st, -hi_):
                        return self.norm(hi_ + lo_, t, st, "or")
            if not ("w" in t or t.get("ptr")):
                return None
            r_ = Poly.atom(self.fresh(st, "or", t))
            if entails(st, -a) and entails(st, -b):
                # for non-negative operands: max(a, b) <= a | b <= a + b  (so `(a | b) <= M` bounds both operands)
                st.add(a - r_)
                st.add(b - r_)
                st.add(r_ - a - b)
            return r_
        if op in ("/", "%", ">>", "<<", "&"):
            if op == ">>" and b.is_const() and 0 <= b.cval() < 64:
                op, b = "/", Poly.const(2 ** b.cval())
            if op == "<<" and b.is_const() and 0 <= b.cval() < 64:
                return self.norm(a * (2 ** b.cval()), t, st, "shl")
            if op in ("/", "%") and b.is_const() and b.cval() > 0 and entails(st, -a):
                q, r = self.quot_rem(st, a, b.cval(), t)
                return q if op == "/" else r
            if op == "&" and (a.is_const() or b.is_const()):
                m, x = (a.cval(), b) if a.is_const() else (b.cval(), a)
                if "w" in t and m == self.trange(t)[1] and entails(st, -x) and entails(st, x - m):
                    return x
                if m == 0:
                    return Poly.const(0)
                if m >= 0:
                    # x & (2^k - 1) = x mod 2^k
                    if m & (m + 1) == 0 and entails(st, -x):
                        return self.quot_rem(st, x, m + 1, t)[1]
                    r = self.fresh(st, "and", t, (0, m))
                    if entails(st, -x):
                        st.add(Poly.atom(r) - x)
                    return Poly.atom(r)
            if op == "&" and entails(st, -a) and entails(st, -b):
                r = self.fresh(st, "and", t, (0, self.trange(t)[1] if "w" in t else None))
                st.add(Poly.atom(r) - a)
                st.add(Poly.atom(r) - b)
                return Poly.atom(r)
            if op in ("/", "%") and entails(st, -a) and entails(st, Poly.const(1) - b):
                q = self.fresh(st, "quot", t, (0, self.trange(t)[1] if "w" in t else None))
                Q = Poly.atom(q)
                st.add(Q - a)  # q <= a for b >= 1
                if a.degree() <= 1 and b.degree() <= 1 and len(b.t) <= 2:
                    st.add(Q * b - a)              # q*b <= a
                    st.add(a - Q * b - b + 1)      # a - q*b <= b - 1
                if op == "/":
                    return Q
                r = self.fresh(st, "rem", t, (0, self.trange(t)[1] if "w" in t else None))
                st.add(Poly.atom(r) - b + 1)
                st.add(Poly.atom(r) - a)
                return Poly.atom(r)
        return Poly.atom(self.fresh(st, "op", t)) if ("w" in t or t.get("ptr")) else None

    def truth(self, st, x, depth=0):
        """True / False when the state decides whether x is non-zero, else None"""
        if x is None:
            return None
        if x.is_const():
            return x.cval() != 0
        if not getattr(self, "eager_truth", True):
            return None
        if entails(st, x) and entails(st, -x):
            return False
        if entails(st, Poly.const(1) - x) or entails(st, x + 1):
            return True
        # a flag atom (comparison / logical result evaluated earlier on this path): its conditional facts say what its
        # being zero / non-zero would imply - if one of those implications is refuted by the path, the other value holds
        if depth < 4 and len(x.t) == 1 and list(x.t.values()) == [1]:
            (m,) = x.t.keys()
            if len(m) == 1 and m[0] in st.cond:
                cd = st.cond[m[0]]
                if any(self.item_truth(st, it, depth + 1) is False for it in cd.get("z", [])):
                    return True
                if any(self.item_truth(st, it, depth + 1) is False for it in cd.get("nz", [])):
                    return False
        return None

    def item_truth(self, st, it, depth=0):
        if it[0] == "cmp":
            return self.cmp_truth(st, it[1], it[2], it[3])
        tv = self.truth(st, it[1], depth)
        if tv is None:
            return None
        return tv if it[0] == "ne0" else (not tv)

    def cmp_truth(self, st, op, a, b):
        d = a - b
        if d.is_const():
            v = d.cval()
            return {"==": v == 0, "!=": v != 0, "<": v < 0, "<=": v <= 0, ">": v > 0, ">=": v >= 0}[op]
        if op in ("==", "!="):
            r = None
            if entails(st, d) and entails(st, -d):
                r = True
            elif entails(st, d + 1) or entails(st, -d + 1):
                r = False
            return r if (op == "==" or r is None) else (not r)
        yes, no = {"<": (d + 1, -d), "<=": (d, -d + 1), ">": (-d + 1, d), ">=": (-d, d + 1)}[op]
        if entails(st, yes):
            return True
        if entails(st, no):
            return False
        return None

    # ---- assumptions
    def assume_atoms(self, items, st):
        """items: list of ('cmp', op, a, b) | ('eq0', v) | ('ne0', v); returns list of states (case splits)"""
        outs = [st]
        for it in items:
            nxt = []
            for s in outs:
                nxt.extend(self.assume_one(it, s))
            outs = nxt
        return outs

    def assume_one(self, it, st):
        kind = it[0]
        if kind == "eq0":
            return self.assume_cmp("==", it[1], Poly.const(0), st)
        if kind == "ne0":
            return self.assume_cmp("!=", it[1], Poly.const(0), st)
        return self.assume_cmp(it[1], it[2], it[3], st)

    def assume_cmp(self, op, a, b, st):
        d = a - b
        new = []
        if op == "<":
            new = [[d + 1]]
        elif op == "<=":
            new = [[d]]
        elif op == ">":
            new = [[-d + 1]]
        elif op == ">=":
            new = [[-d]]
        elif op == "==":
            new = [[d, -d]]
        elif op == "!=":
            # split unless one side is excluded by what is known
            if entails(st, -d):       # a >= b known  -> a > b
                new = [[-d + 1]]
            elif entails(st, d):      # a <= b known  -> a < b
                new = [[d + 1]]
            elif a.is_const() or b.is_const():
                new = [[d + 1], [-d + 1]]
            else:
                new = [[]]            # a disequality between two unknowns carries no linear information: keep one state
                st.notes["neq"] = list(st.notes.get("neq", [])) + [d]  # ... but remember it: equality later is a dead path
        outs = []
        tv = st.notes.get("tabvals")
        for alt in new:
            s = st if len(new) == 1 else st.copy()
            if not feasible(s, alt):
                continue
            for p in alt:
                s.add(p)
            nq = s.notes.get("neq")
            if nq and op != "!=":
                da_ = d.atoms()
                if any((q.atoms() & da_) and entails(s, q) and entails(s, -q) for q in nq):
                    continue  # the two sides of an earlier `!=` are now forced equal: infeasible
            if tv:
                # a value read from a constant table is one of the table's entries: tighten to the entries still possible
                dead = False
                for at in d.atoms():
                    if at in tv:
                        lo, hi = self.simple_bounds(s, Poly.atom(at))
                        left = [x for x in tv[at] if (lo is None or x >= lo) and (hi is None or x <= hi)]
                        if not left:
                            dead = True
                            break
                        if lo is None or min(left) > lo:
                            s.add(Poly.const(min(left)) - Poly.atom(at))
                        if hi is None or max(left) < hi:
                            s.add(Poly.atom(at) - max(left))
                if dead:
                    continue
            # an overflow test that has just been decided fixes the carry of the wrapped value it tested
            cs = s.notes.get("carries")
            if cs:
                da = d.atoms()
                left = []
                for (K, W) in cs:
                    if W in da:
                        if entails(s, Poly.atom(K)):
                            s.add_eq(Poly.atom(K))
                            continue
                    left.append((K, W))
                s.notes["carries"] = left
            # activate conditional facts of flag atoms whose truth is now known
            s2 = self.activate(s, a, b, op)
            outs.extend(s2)
        return outs

    def activate(self, st, a, b, op):
        """if a is a single flag atom compared with constant, activate its conditional facts"""
        outs = [st]
        for (x, y) in ((a, b), (b, a)):
            if len(x.t) == 1 and list(x.t.values()) == [1] and y.is_const():
                (m,) = x.t.keys()
                if len(m) != 1:
                    continue
                at = m[0]
                c = y.cval()
                truth = None
                lo, hi = st.rng.get(at, (None, None))
                if op == "==" and c == 0:
                    truth = "z"
                elif op == "!=" and c == 0:
                    truth = "nz"
                elif (op == "==" and c != 0) or (op in (">", ">=") and x is a and c >= (0 if op == ">" else 1)) or (op in ("<", "<=") and x is b and c >= (0 if op == "<" else 1)):
                    truth = "nz"
                elif op in ("<", "<=") and x is a and lo is not None and lo >= 0 and ((op == "<" and c <= 1) or (op == "<=" and c <= 0)):
                    truth = "z"
                if truth and at in st.cond:
                    items = st.cond[at].get(truth, [])
                    if items:
                        nxt = []
                        for s in outs:
                            nxt.extend(self.assume_atoms(items, s))
                        outs = nxt
                if truth and at in st.notes.get("sel", {}):
                    pass
        return outs

    def assume(self, cond, pol, st):
        """states after taking the branch `cond` with polarity pol (True/False); switch cases: pol=('case',K)/('default',)"""
        fn = self.fn
        if cond is None:
            return [st]
        if not isinstance(pol, bool):
            v = self.val(cond, st)
            if v is not None and pol[0] == "case" and pol[1] is not None:
                return self.assume_cmp("==", v, Poly.const(pol[1]), st)
            if v is not None and pol[0] == "default":
                # the default arm of a small switch excludes its case labels (large dispatch tables are left alone: each
                # exclusion splits the state)
                labs = None
                for B in fn.blocks.values():
                    if B.term == "switch" and B.cond is not None and (B.cond is cond or B.cond.get("id") == cond.get("id")):
                        labs = [fn.blocks[s_].case for s_ in B.succ if s_ is not None and fn.blocks[s_].case is not None]
                        break
                if labs and len(labs) <= 4 and all(isinstance(k_, int) for k_ in labs):
                    outs = [st]
                    for k_ in labs:
                        nxt = []
                        for s1 in outs:
                            nxt.extend(self.assume_cmp("!=", v, Poly.const(k_), s1))
                        outs = nxt
                    return outs
            return [st]
        n = fn.d(cond) if cond.get("k") == "ref" else cond
        cid = cond.get("id")
        # stored comparison operands (evaluated when the element executed)
        if cid in st.cmps:
            op, a, b = st.cmps[cid]
            if op == "!":
                return self.assume_nodeval(a, not pol, st)
            if op in ("&&", "||"):
                return self.assume_logic(op, a, b, pol, st)
            return self.assume_cmp(op if pol else NEGOP[op], a, b, st)
        v = st.vals.get(cid) if cid in st.vals else self.val(n, st)
        return self.assume_nodeval(v, pol, st)

    def assume_logic(self, op, a, b, pol, st):
        if op == "&&" and pol:
            outs = []
            for s in self.assume_nodeval(a, True, st):
                outs.extend(self.assume_nodeval(b, True, s))
            return outs
        if op == "||" and not pol:
            outs = []
            for s in self.assume_nodeval(a, False, st):
                outs.extend(self.assume_nodeval(b, False, s))
            return outs
        # disjunctive information: split
        outs = []
        if op == "&&":  # not (a && b): !a  or  (a and !b)
            outs.extend(self.assume_nodeval(a, False, st.copy()))
            for s in self.assume_nodeval(a, True, st.copy()):
                outs.extend(self.assume_nodeval(b, False, s))
        else:  # a || b
            outs.extend(self.assume_nodeval(a, True, st.copy()))
            for s in self.assume_nodeval(a, False, st.copy()):
                outs.extend(self.assume_nodeval(b, True, s))
        return outs

    def assume_nodeval(self, v, pol, st):
        if v is None:
            return [st]
        return self.assume_cmp("!=" if pol else "==", v, Poly.const(0), st)

    # ---- execution of one CFG element
    def has_nested(self, e):
        """does element e contain, below its top node, an assignment or ++/-- (a side effect evaluated with it)?"""
        memo = self.__dict__.setdefault("_nested", {})
        r = memo.get(e["id"])
        if r is None:
            r = False
            for n in list(self.fn.walk(e))[1:]:
                if (n["k"] == "bin" and n["op"] in ASSIGN) or (n["k"] == "un" and n["op"] in ("post++", "post--", "pre++", "pre--")):
                    r = True
                    break
            memo[e["id"]] = r
        return r

    def exec_elem(self, e, st):
        """apply the effect of CFG element e; returns list of successor states"""
        k = e["k"]
        post = k in ("decl", "ret") or (k == "bin" and (e["op"] in ASSIGN or e["op"] in CMP or e["op"] in ("&&", "||"))) or (k == "un" and e["op"] == "!")
        if post and self.has_nested(e):
            # the element's own effect uses the operands' values before their side effects (i++ yields the old i), which
            # are then applied
            outs = self._exec_elem(e, st)
            for s in outs:
                self.apply_nested(e, s)
            return outs
        return self._exec_elem(e, st)

    def _exec_elem(self, e, st):
        fn = self.fn
        k = e["k"]
        if k == "decl":
            for v in e["vars"]:
                key = "v:" + v["n"]
                self.havoc_prefix(st, key)
                st.env.pop("&" + key, None)
                t = self.types[v["t"]]
                init = v.get("init")
                if init is not None:
                    iv = fn.d(init)
                    if iv is not None and iv["k"] in ("init", "complit", "zeroinit"):
                        self.init_struct(key, iv, t, st)
                    elif "w" in t or t.get("ptr"):
                        val = self.val(init, st)
                        val = self.norm(val, t, st, v["n"]) if val is not None else None
                        if val is not None:
                            st.env[key] = val
                            st.meta[key] = (None, None, t.get("c"))
                    elif t.get("rec"):
                        self.copy_struct(key, init, st)
                st.vals[e["id"]] = None
            return [st]
        if k == "call":
            return self.exec_call(e, st)
        if k == "ret":
            if e["a"] and e["a"][0] is not None:
                st.vals[e["id"]] = self.val(e["a"][0], st)
            return [st]
        if k == "bin" and e["op"] in ASSIGN:
            lhs = fn.d(e["a"][0])
            lt = self.ty(lhs)
            self._mark = self.n_atoms
            if e["op"] == "=":
                rv = fn.d(e["a"][1])
                if lt.get("rec") and not lt.get("ptr"):
                    lk = self.key(lhs, st)
                    if lk is not None:
                        self.havoc_prefix(st, lk)
                        if rv is not None and rv["k"] in ("init", "complit", "zeroinit"):
                            self.init_struct(lk, rv, lt, st)
                        else:
                            self.copy_struct(lk, e["a"][1], st)
                    else:
                        if lt.get("rec"):
                            self.havoc_rec(st, lt["rec"])
                    st.vals[e["id"]] = None
                    return [st]
                v = self.val(e["a"][1], st)
                if v is not None:
                    rt = self.ty(e["a"][1])
                    v = self.norm(v, lt, st, "asg") if ("w" in lt) else v
            else:
                v = self.compound(e, st)
            self.write(lhs, v, st)
            st.vals[e["id"]] = v
            return [st]
        if k == "un" and e["op"] in ("post++", "post--", "pre++", "pre--"):
            lhs = fn.d(e["a"][0])
            old = self.val(lhs, st)
            if old is None:
                self.write(lhs, None, st)
                st.vals[e["id"]] = None
                return [st]
            step = self.step_of(lhs)
            new = old + step if "++" in e["op"] else old - step
            new = self.norm(new, self.ty(lhs), st, "inc")
            self.write(lhs, new, st)
            st.vals[e["id"]] = old if e["op"].startswith("post") else new
            return [st]
        # pure expression
        if k == "bin" and e["op"] in CMP:
            a, b = self.val(e["a"][0], st), self.val(e["a"][1], st)
            if a is not None and b is not None:
                st.cmps[e["id"]] = (e["op"], a, b)
                at = self.fresh(st, "cmp", None, (0, 1))
                st.cond[at] = {"nz": [("cmp", e["op"], a, b)], "z": [("cmp", NEGOP[e["op"]], a, b)]}
                st.vals[e["id"]] = Poly.atom(at)
            else:
                st.vals[e["id"]] = Poly.atom(self.fresh(st, "cmp", None, (0, 1)))
            return [st]
        if k == "bin" and e["op"] in ("&&", "||"):
            a, b = self.val(e["a"][0], st), self.val(e["a"][1], st)
            st.cmps[e["id"]] = (e["op"], a, b)
            st.vals[e["id"]] = self.val(e, st)
            return [st]
        if k == "un" and e["op"] == "!":
            a = self.val(e["a"][0], st)
            st.cmps[e["id"]] = ("!", a, None)
            st.vals[e["id"]] = self.val(e, st)
            return [st]
        if k == "asm":
            for o in e.get("outputs", []):
                self.write(o, None, st)
            return [st]
        # nested side effects (assignments inside larger expressions): apply them in evaluation order
        self.apply_nested(e, st)
        st.vals[e["id"]] = self.val(e, st)
        return [st]

    def apply_nested(self, e, st):
        fn = self.fn
        for n in list(fn.walk(e))[1:]:
            if n["k"] == "bin" and n["op"] in ASSIGN:
                v = self.val(n["a"][1], st) if n["op"] == "=" else self.compound(n, st)
                self.write(fn.d(n["a"][0]), v, st)
            elif n["k"] == "un" and n["op"] in ("post++", "post--", "pre++", "pre--"):
                lhs = fn.d(n["a"][0])
                old = self.val(lhs, st)
                if old is not None:
                    step = self.step_of(lhs)
                    self.write(lhs, self.norm(old + step if "++" in n["op"] else old - step, self.ty(lhs), st), st)
                else:
                    self.write(lhs, None, st)

    @staticmethod
    def fk(key, f):
        return (key + f) if key.endswith("->") else (key + "." + f)

    def init_struct(self, key, iv, t, st):
        fn = self.fn
        if iv["k"] == "complit":
            iv = fn.d(iv["a"][0])
        if iv["k"] == "zeroinit":
            rec = t.get("rec")
            for f in (self.prog.records.get(rec) or {}).get("fields", []) if self.prog else []:
                st.env[self.fk(key, f["n"])] = Poly.const(0)
                st.meta[self.fk(key, f["n"])] = (rec, f["n"], None)
            return
        if iv["k"] == "init" and "fields" in iv:
            rec = t.get("rec")
            for fld, a in zip(iv["fields"], iv["a"]):
                a2 = fn.d(a)
                fk = self.fk(key, fld)
                if a2 is None:
                    continue
                if a2["k"] == "zeroinit":
                    ft = self.ty(a2)
                    if "w" in ft or ft.get("ptr"):
                        st.env[fk] = Poly.const(0)
                        st.meta[fk] = (rec, fld, ft.get("c"))
                    continue
                if a2["k"] in ("init", "complit"):
                    self.init_struct(fk, a2, self.ty(a2), st)
                    continue
                ft2 = self.ty(a2)
                if ft2.get("rec") and not ft2.get("ptr"):
                    self.copy_struct(fk, a, st)  # a record-valued initialiser: .view = other->view
                    continue
                v = self.val(a, st)
                if v is not None:
                    st.env[fk] = v
                    st.meta[fk] = (rec, fld, self.ty(a2).get("c"))

    def copy_struct(self, key, src, st):
        fn = self.fn
        s = fn.d(src)
        if s is None:
            return
        if s["k"] == "call":
            # struct returned by value: summary may have recorded its fields under the call id
            flds = st.notes.get("ret_fields", {}).get(s["id"])
            if flds:
                for f, (v, meta) in flds.items():
                    st.env[self.fk(key, f)] = v
                    st.meta[self.fk(key, f)] = meta
            return
        sk = self.key(s, st)
        if sk is None:
            return
        # make sure the numeric fields of the source record exist as atoms so that the copy shares them
        t = self.ty(s)
        rec = t.get("rec")
        R = self.prog.records.get(rec) if (self.prog and rec) else None
        if R:
            ut = R["_unit"].types
            for f in R["fields"]:
                ft = ut[f["t"]]
                if "w" in ft or ft.get("ptr"):
                    fk = (sk + f["n"]) if sk.endswith("->") else (sk + "." + f["n"])
                    v = self.field(st, fk, rec, f["n"])
                    st.env[self.fk(key, f["n"])] = v
                    st.meta[self.fk(key, f["n"])] = (rec, f["n"], ft.get("c"))

    PURE = {"strlen", "aws_min_size", "aws_max_size", "aws_is_mem_zeroed", "memcmp", "strcmp", "strncmp", "isalnum", "isdigit", "isspace", "isxdigit", "isalpha", "tolower", "toupper",
            "aws_byte_buf_is_valid", "aws_byte_cursor_is_valid", "aws_array_list_is_valid", "aws_is_power_of_two", "aws_array_list_length", "aws_array_list_capacity",
            "aws_raise_error", "aws_last_error", "aws_nospec_mask", "memchr", "aws_array_eq", "aws_array_eq_ignore_case", "aws_isalnum", "aws_isdigit", "aws_isspace",
            "aws_isxdigit", "aws_isalpha", "aws_linked_list_empty", "aws_common_private_has_avx2", "__builtin_expect", "isfinite", "__builtin_isfinite", "aws_hash_iter_done",
            "aws_mem_release", "aws_fatal_assert", "abort"}

    def exec_call(self, e, st):
        fn = self.fn
        args = [self.val(a, st) for a in e["a"]]
        if self.has_nested(e):
            self.apply_nested(e, st)  # f(a[i++]): the argument values above are the ones before the increment
        t = self.ty(e)
        res = NotImplemented
        if self.hooks is not None and hasattr(self.hooks, "call"):
            res = self.hooks.call(self, st, e, args)
        if isinstance(res, list):
            return res  # hook returned successor states itself
        if res is NotImplemented:
            inl = self.try_inline(e, args, st)
            if inl is not None:
                return inl
            res = None
            callee = e.get("callee")
            if callee not in self.PURE:
                self.havoc_call(e, st)
            if "w" in t or t.get("ptr"):
                res = Poly.atom(self.fresh(st, (callee or "icall"), t))
        st.vals[e["id"]] = res
        return [st]

    # ---- interprocedural: abstract execution of small loop-free callees in the caller's state
    INLINE_MAX_BLOCKS = 60
    INLINE_MAX_DEPTH = 3
    INLINE_MAX_STATES = 12

    def try_inline(self, e, args, st):
        r = self._try_inline(e, args, st)
        if _os.environ.get("SA_INLINE") and e.get("callee") and _os.environ["SA_INLINE"] in e["callee"]:
            print("  [inline] %s in %s line %s -> %s (%s)" % (e["callee"], self.fn.name, e.get("loc", ["?"])[0], "no" if r is None else "%d states" % len(r), getattr(self, "_inl_why", "")))
        return r

    def _try_inline(self, e, args, st):
        self._inl_why = ""
        name = e.get("callee")
        if not name or self.prog is None or getattr(self, "no_inline", False):
            return None
        if name in getattr(self, "inline_deny", ()):
            return None
        callee = self.prog.fns.get(name)
        if callee is None or not callee.blocks or len(callee.blocks) > self.INLINE_MAX_BLOCKS:
            return None
        depth = getattr(self, "depth", 0)
        if depth >= self.INLINE_MAX_DEPTH or name == self.fn.name or name in getattr(self, "stack", ()):
            return None
        if len(callee.params) != len(e["a"]):
            return None
        sub = Num(callee, self.prog, self.hooks, max_paths=400)
        if sub.loops():
            return None
        sub.depth = depth + 1
        sub.stack = tuple(getattr(self, "stack", ())) + (self.fn.name,)
        sub.counter = getattr(self, "counter", None) or self
        sub.inline_deny = getattr(self, "inline_deny", ())
        # frame switch: stash the caller's named locals, expose address-taken locals through their address atoms
        s0 = st.copy()
        s0.vals, s0.cmps = {}, {}
        stash, stash_meta = {}, {}
        addr = {k[1:]: v for k, v in s0.env.items() if k.startswith("&v:") and len(v.t) == 1}
        for k in list(s0.env):
            if k.startswith("v:") or k.startswith("&v:"):
                stash[k] = s0.env.pop(k)
                if k in s0.meta:
                    stash_meta[k] = s0.meta[k]
        links = []
        for vk, av in addr.items():
            (m, c), = av.t.items()
            if len(m) != 1 or c != 1:
                continue
            pre = "(" + m[0] + ")->"
            for k, v in stash.items():
                if k == vk:
                    s0.env[pre] = v
                    links.append((pre, k))
                elif k.startswith(vk + "."):
                    s0.env[pre + k[len(vk) + 1:]] = v
                    s0.meta[pre + k[len(vk) + 1:]] = stash_meta.get(k, (None, None, None))
                    links.append((pre + k[len(vk) + 1:], k))
            links.append((pre, vk, "prefix"))
        for p, a in zip(callee.params, args):
            t = callee.unit.types[p["t"]]
            if a is not None:
                s0.env["v:" + p["n"]] = a
                s0.meta["v:" + p["n"]] = (None, None, t.get("c"))
            elif t.get("rec") and not t.get("ptr"):
                return None  # struct passed by value: not modelled
        saved_notes = {k: s0.notes.pop(k) for k in ("tern", "loop_cands", "loop_atoms") if k in s0.notes}
        rets = [x for b in callee.blocks.values() for x in b.elems if x["k"] == "ret"]
        try:
            res = sub._inline_states(s0, rets)
        except Limit:
            self._inl_why = "callee trace limit"
            return None
        if res is None or len(res) > self.INLINE_MAX_STATES or not res:
            self._inl_why = "states: %s" % (None if res is None else len(res))
            return None
        if len(res) > 2 and e["id"] not in self.referenced_ids():
            self._inl_why = "result unused"
            return None  # the caller ignores the result: a single conservative effect is cheaper than several precise ones
        if self.paths > self.max_paths // 2:
            self._inl_why = "path budget"
            return None
        outs = []
        rt = callee.rettype()
        for (s1, rv) in res:
            # back to the caller's frame
            for k in list(s1.env):
                if k.startswith("v:") or k.startswith("&v:"):
                    del s1.env[k]
            new_local = {}
            for lk in links:
                if len(lk) == 3:
                    pre, vk = lk[0], lk[1]
                    for k in list(s1.env):
                        if k == pre:
                            new_local[vk] = (s1.env[k], s1.meta.get(k))  # a scalar local written through its address
                        elif k.startswith(pre):
                            new_local[vk + "." + k[len(pre):]] = (s1.env[k], s1.meta.get(k))
                else:
                    if lk[0] in s1.env:
                        new_local[lk[1]] = (s1.env[lk[0]], s1.meta.get(lk[0]))
            gone = set()
            for lk in links:
                # an exposed copy the callee invalidated (a store through the pointer it could not follow exactly):
                # the caller's value of that local is stale too
                if len(lk) == 2 and lk[0] not in s1.env:
                    gone.add(lk[1])
            for lk in links:  # the exposed copies of address-taken locals go away with the callee's frame
                if len(lk) == 3:
                    for k in list(s1.env):
                        if k.startswith(lk[0]):
                            del s1.env[k]
            for k, v in stash.items():
                if k in gone:
                    continue
                s1.env[k] = v
                if k in stash_meta:
                    s1.meta[k] = stash_meta[k]
            touched = {vk for (_, vk, *r) in links}
            for k in list(s1.env):
                for vk in addr:
                    if (k == vk or k.startswith(vk + ".")) and k not in new_local and k.startswith("v:"):
                        # an address-taken local the callee may have rewritten through its pointer: keep only what it left
                        pre = None
                        for lk in links:
                            if len(lk) == 3 and lk[1] == vk:
                                pre = lk[0]
                        if pre is not None and not any(kk.startswith(pre) for kk in s1.env):
                            pass
            for k, (v, m) in new_local.items():
                s1.env[k] = v
                if m:
                    s1.meta[k] = m
            for k, v in saved_notes.items():
                s1.notes[k] = v
            # element ids are per function: what the callee's elements evaluated to must not shadow the caller's
            s1.vals = dict(st.vals)
            s1.cmps = dict(st.cmps)
            s1.vals[e["id"]] = rv if ("w" in rt or rt.get("ptr")) else None
            outs.append(s1)
        self.n_atoms = max(self.n_atoms, sub.n_atoms)
        return outs

    def referenced_ids(self):
        if getattr(self, "_refd", None) is None:
            ids = set()
            fn = self.fn
            for b in fn.blocks.values():
                if b.cond is not None and b.cond.get("k") == "ref":
                    ids.add(b.cond["id"])
                for e in b.elems:
                    for n in fn.walk(e):
                        if n.get("k") == "ref":
                            ids.add(n["id"])
            self._refd = ids
        return self._refd

    def _inline_states(self, s0, rets):
        """(state, return value) pairs of this function started in state s0"""
        ids = {r["id"] for r in rets}
        if self.fn.rettype().get("c") == "void" or not rets:
            ids = ids | {-1}
        self.n_atoms = max(self.n_atoms, getattr(self.counter, "n_atoms", 0))
        sts = self.states_at(ids, entry_state=s0)
        out = []
        for r in rets:
            for st in sts.get(r["id"], []):
                rv = self.val(r["a"][0], st) if r["a"] and r["a"][0] is not None else None
                out.append((st, rv))
        if -1 in ids and not rets:
            for st in sts.get(-1, []):
                out.append((st, None))
        if getattr(self, "counter", None) is not None:
            self.counter.n_atoms = max(self.counter.n_atoms, self.n_atoms)
        return out

    def havoc_call(self, e, st):
        """conservative effect of an unknown call: the objects its pointer arguments designate, every record type
        reachable from them through pointer fields, and all globals"""
        fn = self.fn
        callee = self.prog.fns.get(e.get("callee")) if (self.prog and e.get("callee")) else None
        # (the escape is recorded after this call's own effect: a callee that gets &x can write x only through the
        # argument, which the effect items / the argument loop below handle)
        try:
            return self._havoc_call(e, st, fn, callee)
        finally:
            self.note_escapes(e, st)

    def _havoc_call(self, e, st, fn, callee):
        if self.prog is not None and getattr(self, "use_effects", True):
            E = self.prog.__dict__.get("_effects")
            if E is None:
                from .effects import Effects
                E = self.prog._effects = Effects(self.prog)
            eff = E.callee_items(fn, e)
            if eff is not None:
                self.apply_effects(e, eff, st)
                return
        self.cell_store(st, None)
        for ai, a in enumerate(e["a"]):
            x = fn.d(a)
            if x is None:
                continue
            if callee is not None and ai < len(callee.params):
                pt = callee.unit.types[callee.params[ai]["t"]]
                if pt.get("ptr") and pt.get("s", "").startswith("const "):
                    continue  # pointer to const: the callee does not modify the object
            xt = self.ty(x)
            inner = x
            while inner is not None and inner["k"] == "cast":
                inner = fn.d(inner["a"][0])
            if inner is not None and inner["k"] == "un" and inner["op"] == "addr":
                tgt = fn.d(inner["a"][0])
                k = self.key(tgt, st)
                tt = self.ty(tgt)
                if k is not None:
                    self.havoc_prefix(st, k)
                    if tt.get("rec"):
                        self.havoc_reachable(st, tt["rec"], include_self=False)
                elif tt.get("rec"):
                    self.havoc_rec(st, tt["rec"])
                elif "w" in tt:
                    self.havoc_type(st, tt.get("c"))
            elif xt.get("ptr"):
                if xt.get("s", "").startswith("const "):
                    continue
                if xt.get("rec"):
                    v = self.val(x, st)
                    if v is not None:
                        self.havoc_prefix(st, self.obj_of(st, v))
                        self.havoc_reachable(st, xt["rec"], include_self=False)
                    else:
                        self.havoc_rec(st, xt["rec"])
                elif not xt.get("fnptr"):
                    self.havoc_type(st, None if xt.get("c") in ("void *", "char *", "unsigned char *") else xt.get("c", "").rstrip(" *"))
        for k in list(st.env):
            if k.startswith("g:"):
                del st.env[k]

    def apply_effects(self, e, eff, st):
        """invalidate exactly what the callee's write-effect summary (sa/effects.py) says it may store to"""
        fn = self.fn

        def fallback(rec, fld, ctype):
            if rec and fld == "*":
                self.havoc_rec(st, rec)
            elif rec:
                for k2 in list(st.env):
                    m = st.meta.get(k2)
                    if m and m[0] == rec and m[1] == fld:
                        del st.env[k2]
            else:
                self.havoc_type(st, ctype)

        # cursors the callee only consumes (decided from its body, consume_only): remember their value before the call
        consumed = []
        if getattr(self.hooks, "cursor_postconditions", False) and e.get("callee"):
            groups = {}
            for it in eff:
                if it[0] == "p" and it[3] == "aws_byte_cursor" and it[4] in ("len", "ptr") and len(it[2]) == 1 and it[1] < len(e["a"]):
                    groups.setdefault((it[1], it[2][0][:-3]), set()).add(it[4])
            for (j, prefix), flds in groups.items():
                x = fn.d(e["a"][j])
                inner = x
                while inner is not None and inner["k"] == "cast":
                    inner = fn.d(inner["a"][0])
                if inner is not None and inner["k"] == "un" and inner["op"] == "addr":
                    kb = self.key(fn.d(inner["a"][0]), st)
                    base = (kb + "." + prefix) if kb else None
                else:
                    v = self.val(x, st) if x is not None else None
                    base = (self.base_of(st, v) + prefix) if v is not None else None
                if base is None or not self.consume_only(e["callee"], j, prefix):
                    continue
                consumed.append((base, self.field(st, base + "len", "aws_byte_cursor", "len"), self.field(st, base + "ptr", "aws_byte_cursor", "ptr")))
        self._apply_effect_items(e, eff, st, fallback)
        for base, l0, p0 in consumed:
            st.env.pop(base + "len", None)
            st.env.pop(base + "ptr", None)
            l1 = self.field(st, base + "len", "aws_byte_cursor", "len")
            p1 = self.field(st, base + "ptr", "aws_byte_cursor", "ptr")
            st.add(l1 - l0)
            st.add(p0 - p1)
            st.add_eq(p1 + l1 - p0 - l0)

    def consume_only(self, callee_name, j, prefix):
        """does every path through the callee leave the cursor <param j>-><prefix> a suffix of what it was (len not larger,
        ptr not smaller, ptr+len unchanged)?  Decided by NUM on the callee's body, for all cursor parameters / members its
        write effects mention in one run; memoised per program."""
        memo = self.prog.__dict__.setdefault("_consume_only", {})
        key = (callee_name, j, prefix)
        if key in memo:
            return memo[key]
        g = self.prog.fns.get(callee_name)
        E = self.prog.__dict__.get("_effects")
        eff = E.of(callee_name) if (E is not None and g is not None) else None
        want = set()
        for it in (eff or ()):
            if it[0] == "p" and it[3] == "aws_byte_cursor" and it[4] in ("len", "ptr") and len(it[2]) == 1:
                want.add((it[1], it[2][0][:-3]))
        want.add((j, prefix))
        for w in want:
            memo.setdefault((callee_name,) + w, False)  # recursion: not assumed
        if g is not None and g.blocks and getattr(self, "depth", 0) < 3:
            sub = Num(g, self.prog, self.hooks, max_paths=20000)
            sub.track_progress = True
            sub.depth = getattr(self, "depth", 0) + 1
            st0 = State()
            if self.hooks is not None and hasattr(self.hooks, "entry"):
                self.hooks.entry(sub, st0)
            ent = {}
            for (jj, pf) in sorted(want):
                if jj >= len(g.params):
                    continue
                p = g.params[jj]
                b = sub.read({"k": "var", "n": p["n"], "sc": "param", "t": p["t"], "id": -1}, st0)
                if b is None:
                    continue
                base = "(" + repr(b) + ")->" + pf
                ent[(jj, pf)] = (base, sub.field(st0, base + "len", "aws_byte_cursor", "len"), sub.field(st0, base + "ptr", "aws_byte_cursor", "ptr"))
            try:
                exits = sub.states_at({-1}, entry_state=st0).get(-1, [])
            except Limit:
                exits = []
            for w, (base, l0, p0) in ent.items():
                ok = bool(exits)
                for s in exits:
                    l1, p1 = s.env.get(base + "len"), s.env.get(base + "ptr")
                    if l1 is None or p1 is None or not (entails(s, l1 - l0) and entails(s, p0 - p1) and entails(s, p1 + l1 - p0 - l0) and entails(s, p0 + l0 - p1 - l1)):
                        ok = False
                        break
                memo[(callee_name,) + w] = ok
        return memo[key]

    def _apply_effect_items(self, e, eff, st, fallback):
        fn = self.fn
        for it in sorted(eff, key=repr):
            kind = it[0]
            if kind == "t":
                fallback(it[1], it[2], None)
            elif kind == "ty":
                self.havoc_type(st, it[1])
                self.cell_store(st, None)
            elif kind == "r":
                self.havoc_reachable(st, it[1], include_self=False)
            elif kind == "g":
                if not (it[2] and it[2][-1].endswith("[]")):
                    self.havoc_prefix(st, "g:" + it[1])  # (elements of a global array are not tracked as keys)
            elif kind == "p":
                _, j, hops, rec, fld, ctype = it
                if j >= len(e["a"]):
                    fallback(rec, fld, ctype)
                    continue
                x = fn.d(e["a"][j])
                inner = x
                while inner is not None and inner["k"] == "cast":
                    inner = fn.d(inner["a"][0])
                cur = None
                sep = "->"
                if inner is not None and inner["k"] == "un" and inner["op"] == "addr":
                    cur = self.key(fn.d(inner["a"][0]), st)
                    sep = "."
                elif x is not None:
                    v = self.val(x, st)
                    if v is not None:
                        cur = self.obj_of(st, v)
                        sep = "." if cur.startswith("v:") else "->"
                if cur is None:
                    fallback(rec, fld, ctype)
                    continue
                arr = bool(hops) and hops[-1].endswith("[]")
                if arr:
                    hops = tuple(hops[:-1]) + (hops[-1][:-2].rstrip("."),)
                    if len(hops) == 1 and not hops[0] and not (inner is not None and inner["k"] == "un" and inner["op"] == "addr"):
                        self.cell_store(st, self.val(x, st))  # p[i] = ...: bytes of the object the argument points to
                        continue
                ok = True
                for hi, ch in enumerate(hops):
                    if ch:
                        cur = cur + sep + ch
                    if hi == len(hops) - 1:
                        break
                    pv = st.env.get(cur)
                    if pv is None:
                        ok = False
                        break
                    cur = self.obj_of(st, pv)
                    sep = "." if cur.startswith("v:") else "->"
                if not ok:
                    fallback(rec, fld, ctype)
                    if arr or not rec:
                        self.cell_store(st, None)
                    continue
                if arr:
                    self.cell_store(st, st.env.get(cur))  # elements of the array / buffer that key designates
                    continue
                if not rec:
                    pvv = self.val(x, st) if not (inner is not None and inner["k"] == "un" and inner["op"] == "addr") else None
                    if len(hops) == 1 and not hops[0] and pvv is not None:
                        self.cell_store(st, pvv)  # *p = ...
                self.havoc_prefix(st, cur)
                # other names of the same storage
                if rec:
                    recs = {rec}
                    for k2 in list(st.env):
                        m = st.meta.get(k2)
                        if not m or k2 == cur:
                            continue
                        if (fld == "*" and m[0] == rec) or (m[0] == rec and m[1] == fld):
                            if self.may_alias(cur, k2, st):
                                del st.env[k2]
                    if fld == "*":
                        # nested by-value records of a whole-object store reached under another name
                        pass

    def havoc_reachable(self, st, rec, include_self=True):
        R = self.prog.records if self.prog else {}
        seen = set()
        work = [rec]
        first = True
        while work:
            r = work.pop()
            if r in seen:
                continue
            seen.add(r)
            for f in (R.get(r) or {}).get("fields", []):
                ft = R[r]["_unit"].types[f["t"]] if "_unit" in R[r] else {}
                if ft.get("rec") and ft["rec"] not in seen:
                    work.append(ft["rec"])
        for r in seen:
            if r == rec and not include_self:
                # still: the same record type reached through a pointer field (lists, trees)
                continue
            self.havoc_rec(st, r)

    # ---- loops
    def loops(self):
        """natural loops over feasible edges: header -> set of body blocks"""
        if self._loops is None:
            from .cfg import dominators
            fn = self.fn
            dom = dominators(fn)
            loops = {}
            for b in dom:
                for s, _, _ in edges(fn, b):
                    if s in dom.get(b, ()):  # back edge b -> s
                        body = {s, b}
                        st = [b]
                        preds = fn.preds()
                        while st:
                            x = st.pop()
                            if x == s:
                                continue
                            for p in preds.get(x, []):
                                if p not in body and p in dom:
                                    body.add(p)
                                    st.append(p)
                        loops.setdefault(s, set()).update(body)
            self._loops = loops
        return self._loops

    def loop_effects(self, header):
        """keys written in the loop body (syntactic): ('var', name) | ('field', rec, f) | ('type', ctype) | ('call', node)"""
        fn = self.fn
        out = []
        for b in self.loops()[header]:
            for e in fn.blocks[b].elems:
                for n in fn.walk(e):
                    if n["k"] == "decl":
                        for v in n["vars"]:
                            out.append(("var", v["n"]))
                    elif n["k"] == "bin" and n["op"] in ASSIGN or (n["k"] == "un" and n["op"] in ("post++", "post--", "pre++", "pre--")):
                        l = fn.d(n["a"][0])
                        if l["k"] == "var":
                            out.append(("var", l["n"], n))
                        elif l["k"] == "member":
                            out.append(("field", l.get("rec"), l["f"], l, n))
                        else:
                            out.append(("type", self.ty(l).get("c"), l))
                    elif n["k"] == "call":
                        out.append(("call", n))
                    elif n["k"] == "asm":
                        out.append(("asm", n))
        return out

    def enter_loop(self, header, st):
        """havoc what the loop modifies; keep monotone-counter bounds and inductive linear relations (Houdini)"""
        fn = self.fn
        eff = self.loop_effects(header)
        pre = {}
        mod_keys = []
        # values before the loop of directly assigned scalar vars / fields
        for x in eff:
            if x[0] == "var" and len(x) > 2:
                k = "v:" + x[1]
                lhs = fn.d(x[2]["a"][0])
                lt = self.ty(lhs)
                if k not in st.env and ("w" in lt or lt.get("ptr")) and self.declared_outside(header, x[1]):
                    self.read(lhs, st)
                if k in st.env and k not in pre:
                    pre[k] = st.env[k]
            elif x[0] == "field":
                k = self.key(x[3], st)
                if k is not None and k not in st.env:
                    lt = self.ty(x[3])
                    if "w" in lt or lt.get("ptr"):
                        self.read(x[3], st)
                if k is not None and k in st.env and k not in pre:
                    pre[k] = st.env[k]
        # calls whose whole effect the hooks describe as changes of named keys: those keys become loop atoms
        described = set()
        rate_keys = set()
        for x in eff:
            if x[0] in ("var", "field") and len(x) > 2 and x[-1]["k"] == "bin" and x[-1]["op"] in ("+=", "-=") and self.const_step(x[-1]) is None:
                rate_keys.add(("v:" + x[1]) if x[0] == "var" else self.key(x[3], st))
        if self.hooks is not None and hasattr(self.hooks, "call_modifies"):
            for x in eff:
                if x[0] == "call":
                    mods = self.hooks.call_modifies(self, st, x[1])
                    if mods is not None:
                        described.add(id(x[1]))
                        for (mk, mrec, mf) in mods:
                            if mk not in pre:
                                pre[mk] = self.field(st, mk, mrec, mf)
                            rate_keys.add(mk)
        # cursors handed to callees inside the loop: their length is a progress measure
        prog_keys = []
        if getattr(self, "track_progress", False):
            for x in eff:
                if x[0] == "call":
                    callee = self.prog.fns.get(x[1].get("callee")) if (self.prog and x[1].get("callee")) else None
                    for ai, a in enumerate(x[1].get("a", [])):
                        an = fn.d(a)
                        at = self.ty(an) if an is not None else {}
                        if an is None or at.get("rec") != "aws_byte_cursor" or not at.get("ptr"):
                            continue
                        if callee is not None and ai < len(callee.params):
                            pt = callee.unit.types[callee.params[ai]["t"]]
                            if pt.get("ptr") and pt.get("s", "").startswith("const "):
                                continue  # read-only view of the cursor
                        inner = an
                        while inner is not None and inner["k"] == "cast":
                            inner = fn.d(inner["a"][0])
                        if inner is not None and inner["k"] == "un" and inner["op"] == "addr":
                            bk = self.key(fn.d(inner["a"][0]), st)
                            lk = (bk + ".len") if bk else None
                        else:
                            pv = self.val(an, st)
                            lk = (self.base_of(st, pv) + "len") if pv is not None else None
                        if lk and lk not in pre:
                            pre[lk] = self.field(st, lk, "aws_byte_cursor", "len")
                            prog_keys.append(lk)
                        pk = (lk[:-3] + "ptr") if lk else None
                        if pk and pk not in pre:
                            pre[pk] = self.field(st, pk, "aws_byte_cursor", "ptr")
                            prog_keys.append(pk)
        # direction of change of each var: only ++ / += positive-const -> non-decreasing
        direction = {}
        for x in eff:
            if x[0] in ("var", "field") and len(x) > 2:
                n = x[-1]
                k = ("v:" + x[1]) if x[0] == "var" else self.key(x[3], st)
                cs = self.const_step(n)
                d = 0 if cs is None or cs == 0 else (1 if cs > 0 else -1)
                direction[k] = d if k not in direction or direction[k] == d else 0
            elif x[0] == "var":
                direction["v:" + x[1]] = 0
        # candidates: linear relations between modified keys with known pre-values: sum c_k (x_k - pre_k) == 0 for small c
        cands = self.relation_candidates(header, eff, pre, direction, st)
        entry_facts = list(st.facts)
        # the object each pointer store in the body goes to, when its base is a pointer that is only stepped in the loop
        store_bases = {}
        reassigned = {y[1] for y in eff if y[0] == "var" and (len(y) < 3 or self.const_step(y[2]) is None)}
        for x in eff:
            if x[0] == "type" and len(x) > 2:
                l = x[2]
                bn = fn.d(l["a"][0]) if l["k"] in ("index",) or (l["k"] == "un" and l["op"] == "deref") else None
                okb = bn is not None
                if okb:
                    for y in fn.walk(bn, follow_refs=True):
                        if y["k"] == "var" and y["n"] in reassigned:
                            okb = False
                        if y["k"] == "call":
                            okb = False
                if okb:
                    s_tmp = st.copy()
                    bv = self.val(bn, s_tmp)
                    if bv is not None and self._tracked(st, bv):
                        store_bases[id(l)] = bv
        # havoc
        for x in eff:
            if x[0] == "var":
                self.havoc_prefix(st, "v:" + x[1])
            elif x[0] == "field":
                for k2 in list(st.env):
                    m = st.meta.get(k2)
                    if m and m[0] == x[1] and m[1] == x[2]:
                        del st.env[k2]
            elif x[0] == "type":
                self.havoc_type(st, x[1])
                self.cell_store(st, store_bases.get(id(x[2])) if len(x) > 2 else None)
            elif x[0] == "call":
                if id(x[1]) in described:
                    continue
                if x[1].get("callee") not in self.PURE and not self.summary_is_pure(x[1]):
                    self.havoc_call(x[1], st)
            elif x[0] == "asm":
                pass
        # re-introduce the modified keys as fresh atoms with the kept invariants
        newv = {}
        for k, p0 in pre.items():
            m = st.meta.get(k)
            t = None
            a = self.fresh(st, k.split(":")[-1].replace("(", "").replace(")", "") + "@loop", None, self.range_of_key(k, st))
            st.env[k] = Poly.atom(a)
            newv[k] = Poly.atom(a)
            d = direction.get(k)
            if self.hooks is not None and (self.fn.name, k) in getattr(self.hooks, "monotone_keys", ()):
                d = 1  # declared by the rule (with its reason) to only grow
            if d == 1:
                st.add(p0 - newv[k])
            elif d == -1:
                st.add(newv[k] - p0)
            ss = {self.const_step(x[-1]) for x in eff if x[0] in ("var", "field") and len(x) > 2 and ((("v:" + x[1]) if x[0] == "var" else self.key(x[3], st)) == k)}
            if len(ss) == 1 and None not in ss and abs(list(ss)[0]) >= 2:
                # every assignment in the body adds the same constant: the value moves in whole strides
                it = self.fresh(st, "strides", None, (0, None))
                st.add_eq(newv[k] - p0 - Poly.atom(it) * list(ss)[0])
        for k in prog_keys:  # the cursor is only changed through the API: it is still a valid view
            st.meta[k] = ("aws_byte_cursor", k[-3:], None)
            if self.hooks is not None and hasattr(self.hooks, "fresh_field"):
                (m,) = newv[k].t.keys()
                self.hooks.fresh_field(self, st, k, "aws_byte_cursor", k[-3:], m[0])
        # bound kept from the loop condition: x < N with x stepping by +1 and N loop-invariant  =>  x <= N at the header
        hb = fn.blocks[header]
        stepkeys = {}
        for x in eff:
            if x[0] in ("var", "field") and len(x) > 2:
                k = ("v:" + x[1]) if x[0] == "var" else self.key(x[3], st)
                stepkeys.setdefault(k, []).append(self.const_step(x[-1]))
        hdr_blocks = [header] + [s_id for s_id, _, _ in edges(fn, header) if s_id in self.loops()[header]]
        for hb_id in [header]:
            B = fn.blocks[hb_id]
            c = fn.d(B.cond) if B.cond is not None else None
            if c is not None and c["k"] == "bin" and c["op"] in ("<", "<=", "!="):
                lx = fn.d(c["a"][0])
                while lx is not None and lx["k"] == "cast":
                    lx = fn.d(lx["a"][0])
                kx = self.key(lx, st) if lx is not None and lx["k"] in ("var", "member") else None
                once = False
                if kx in newv and stepkeys.get(kx) and len(stepkeys[kx]) == 1 and stepkeys[kx][0] is not None and stepkeys[kx][0] >= 1:
                    # the single assignment of x must run at most once per iteration: not inside a nested loop
                    for y in eff:
                        if y[0] in ("var", "field") and len(y) > 2 and ((("v:" + y[1]) if y[0] == "var" else self.key(y[3], st)) == kx):
                            blk_ = self.elem_of.get(y[-1]["id"], (None,))[0]
                            inner_ = set()
                            for h2, b2 in self.loops().items():
                                if h2 != header and h2 in self.loops()[header]:
                                    inner_ |= b2
                            once = blk_ is not None and blk_ not in inner_
                if once and (c["op"] != "!=" or stepkeys[kx][0] == 1):
                    stride_ = stepkeys[kx][0]
                    # N must not be modified in the loop
                    modified = {("v:" + y[1]) for y in eff if y[0] == "var"}
                    nn_ = fn.d(c["a"][1])
                    ok = True
                    for y in fn.walk(nn_, follow_refs=True):
                        if y["k"] == "var" and ("v:" + y["n"]) in modified:
                            ok = False
                        if y["k"] in ("call", "index") or (y["k"] == "un" and y["op"] == "deref"):
                            ok = False
                        if y["k"] == "member":
                            ky = self.key(y, st)
                            if ky in newv or any(z[0] == "call" and self.call_may_write(z[1], ky, st) for z in eff):
                                ok = False
                    if ok:
                        N = self.val(c["a"][1], st)
                        if N is not None:
                            # x < N tested before every step of size s: at the header x <= N + s - 1 (x <= N for s = 1)
                            bound = (N if c["op"] in ("<", "!=") else N + 1) + (stride_ - 1)
                            if entails(st, pre[kx] - bound):
                                st.add(newv[kx] - bound)
        for coeffs in cands:
            rel = Poly()
            for k, c in coeffs.items():
                rel = rel + (newv[k] - pre[k]) * c
            st.add_eq(rel)
        # Houdini: facts about the modified keys that hold at loop entry are kept as candidate invariants on the loop
        # atoms; candidates not re-established at a back edge are dropped and the analysis is re-run (states_at)
        single = {}
        for k, p0 in pre.items():
            if len(p0.t) == 1:
                (m, c), = p0.t.items()
                if len(m) == 1 and c == 1:
                    single[m[0]] = k
        multi_atoms = set()
        for k, p0 in pre.items():
            if not (len(p0.t) == 1 and list(p0.t.values()) == [1] and len(list(p0.t)[0]) == 1):
                multi_atoms |= p0.atoms()
        hc = []
        dropped = self.loop_drop.get(header, set())
        if "*" in dropped:
            single = {}
            prog_keys = []
        if single:
            mp = {a: newv[k] for a, k in single.items()}
            for F in entry_facts:
                fa = F.atoms()
                if not (fa & set(single)) or len(F.t) > 6:
                    continue
                cid = _stable(repr(F.subst({a: Poly.atom("KEY<" + k + ">") for a, k in single.items()})))
                if cid in dropped:
                    continue
                hc.append((cid, F.subst(mp), {list(newv[k].t)[0][0]: k for k in single.values()}))
                st.add(F.subst(mp))
        # a loop-invariant value (capacity, extent, end pointer) written in terms of the entry values of modified keys:
        # the same expression over their current values stays on the same side of it
        if single and "*" not in dropped:
            seenV = set()
            vals_ = [v for k_, v in st.env.items() if k_ not in newv] + list(st.extent.values())
            for V in vals_:
                if V is None or V.is_const() or len(V.t) > 5 or V.degree() > 1 or len(V.atoms() & set(single)) < 2:
                    continue
                vk = V.key()
                if vk in seenV:
                    continue
                seenV.add(vk)
                V2 = V.subst(mp)
                am = {list(newv[k].t)[0][0]: k for k in single.values()}
                for sgn, nm in ((1, "le"), (-1, "ge")):
                    cid = _stable("shape-%s<%r>" % (nm, V.subst({a: Poly.atom("KEY<" + k + ">") for a, k in single.items()})))
                    if cid in dropped:
                        continue
                    G = (V2 - V) * sgn
                    hc.append((cid, G, am))
                    st.add(G)
        # cursors changed only through the API inside the loop: ptr never moves back, len never grows, ptr+len is fixed,
        # and ptr stays below any loop-invariant pointer it was below at entry (candidates, checked like the others)
        def _atom(p):
            return list(p.t)[0][0]
        for pk in prog_keys:
            if not pk.endswith("ptr"):
                continue
            lk = pk[:-3] + "len"
            if lk not in newv or pk not in newv:
                continue
            amap = {_atom(newv[pk]): pk, _atom(newv[lk]): lk}
            gens = [("cursor-ptr-mono<%s>" % pk, pre[pk] - newv[pk]), ("cursor-len-mono<%s>" % pk, newv[lk] - pre[lk]),
                    ("cursor-sum-le<%s>" % pk, newv[pk] + newv[lk] - pre[pk] - pre[lk]), ("cursor-sum-ge<%s>" % pk, pre[pk] + pre[lk] - newv[pk] - newv[lk])]
            patoms = pre[pk].atoms()
            for k2, V in list(st.env.items()):
                if k2 in newv or k2.startswith("&") or not (V.atoms() & patoms) or V == pre[pk]:
                    continue
                m2 = st.meta.get(k2)
                if not (m2 and m2[1] == "ptr") and not k2.endswith(".ptr"):
                    continue
                if entails(st, pre[pk] - V):
                    gens.append(("cursor-ptr-le<%s|%s>" % (pk, k2), newv[pk] - V))
            for cid, G in gens:
                cid = _stable(cid)
                if cid in dropped:
                    continue
                hc.append((cid, G, amap))
                st.add(G)
        # rate candidates: while key a advances by exactly one per assignment, key b grows by at most c per step of a
        if "*" not in dropped:
            unit = [k for k, sv in stepkeys.items() if k in newv and sv and all(x_ == 1 for x_ in sv)]
            for a_ in unit:
                for b_ in newv:
                    if b_ == a_ or b_ not in rate_keys:
                        continue  # only keys changed by a variable amount (a += expression, or a call the hooks describe)
                    if len(newv[b_].t) != 1 or pre[b_].degree() > 1:
                        continue
                    mb = st.meta.get(b_)
                    if mb and mb[2] and ("*" in mb[2]):
                        continue
                    for cc in (1, 2, 3, 4):
                        cid = _stable("rate<%s|%s|%d>" % (b_, a_, cc))
                        if cid in dropped:
                            continue
                        G = (newv[b_] - pre[b_]) - (newv[a_] - pre[a_]) * cc
                        hc.append((cid, G, {_atom(newv[b_]): b_, _atom(newv[a_]): a_}))
                        st.add(G)
        # a key every update of which adds (subtracts) a per-iteration value of unsigned type moves one way only -
        # unless the arithmetic wraps: a candidate, kept only if re-established at every back edge
        if "*" not in dropped:
            signs = {}
            for x in eff:
                if x[0] in ("var", "field") and len(x) > 2:
                    k = ("v:" + x[1]) if x[0] == "var" else self.key(x[3], st)
                    if k not in newv or len(newv[k].t) != 1:
                        continue
                    ss_ = self.sym_step(x[-1], header) if self.const_step(x[-1]) is None else None
                    signs.setdefault(k, set()).add((1 if ss_[0] > 0 else -1) if ss_ is not None else 0)
            for k, sg in signs.items():
                if len(sg) == 1 and 0 not in sg:
                    sgn = list(sg)[0]
                    cid = _stable("symstep-mono<%s|%d>" % (k, sgn))
                    if cid in dropped:
                        continue
                    G = (pre[k] - newv[k]) * sgn
                    hc.append((cid, G, {_atom(newv[k]): k}))
                    st.add(G)
        lc = dict(st.notes.get("loop_cands", {}))
        lc[header] = hc
        st.notes["loop_cands"] = lc
        la = dict(st.notes.get("loop_atoms", {}))
        la[header] = {k: v for k, v in newv.items()}
        st.notes["loop_atoms"] = la
        st.notes.setdefault("loops", []).append((header, sorted(pre), len(cands), len(hc)))
        return st

    def call_may_write(self, callnode, key, st):
        """may this call store to the lvalue key?  (write-effect summary of the callee, matched by record/field type)"""
        if callnode.get("callee") in self.PURE or self.summary_is_pure(callnode):
            return False
        if self.prog is None or key is None:
            return True
        E = self.prog.__dict__.get("_effects")
        if E is None:
            from .effects import Effects
            E = self.prog._effects = Effects(self.prog)
        items = E.callee_items(self.fn, callnode)
        if items is None:
            return True
        m = st.meta.get(key) or (None, None, None)
        for it in items:
            if it[0] == "p" or it[0] == "g":
                rec, fld, ctype = it[3], it[4], it[5]
                if rec is not None:
                    if rec == m[0] and (fld == "*" or fld == m[1]):
                        return True
                    if fld == "*" and m[0] is not None and self.prog.records.get(rec) and any((self.prog.records[rec]["_unit"].types[f_["t"]].get("rec") == m[0]) for f_ in self.prog.records[rec]["fields"]):
                        return True
                elif ctype is None or ctype == m[2]:
                    if not (it[2] and it[2][-1].endswith("[]")):
                        return True
            elif it[0] == "t":
                if it[1] == m[0] and (it[2] == "*" or it[2] == m[1]):
                    return True
            elif it[0] == "ty":
                if it[1] is None or it[1] == m[2]:
                    return True
            else:
                return True
        return False

    def first_test_true(self, header, st):
        """the loop's test sits in its header (while / for), the header computes nothing else, and the state that arrives
        from outside decides the test: true"""
        fn = self.fn
        B = fn.blocks[header]
        if B.term not in ("while", "for") or B.cond is None or len(B.succ) != 2:
            return False
        body = self.loops()[header]
        outs = [s_id for s_id, _, _ in edges(fn, header) if s_id not in body]
        if len(outs) != 1:
            return False
        for e in B.elems:
            for x in fn.walk(e):
                if x["k"] in ("call", "asm", "decl") or (x["k"] == "bin" and x["op"] in ASSIGN) or (x["k"] == "un" and x["op"] in ("post++", "post--", "pre++", "pre--")):
                    return False
        s = st.copy()
        states = [s]
        try:
            for e in B.elems:
                nxt = []
                for s_ in states:
                    nxt.extend(self.exec_elem(e, s_))
                states = nxt
            if len(states) != 1:
                return False
            t = self.assume(B.cond, True, states[0].copy())
            f_ = self.assume(B.cond, False, states[0].copy())
        except Limit:
            return False
        return bool(t) and not f_

    def split_at_loop_entry(self, header, st):
        """`for (x = a; x < N; ++x)`: when the state decides neither a <= N nor a > N, analyse the two cases separately
        (in the second the body never runs), so that the bound x <= N can be kept as an invariant in the first"""
        fn = self.fn
        B = fn.blocks[header]
        c = fn.d(B.cond) if B.cond is not None else None
        if c is None or c["k"] != "bin" or c["op"] not in ("<", "<="):
            return [st]
        s = st.copy()
        x = self.val(c["a"][0], s)
        N = self.val(c["a"][1], s)
        if x is None or N is None or x.degree() > 1 or N.degree() > 1:
            return [st]
        bound = N if c["op"] == "<" else N + 1
        if entails(s, x - bound) or entails(s, bound + 1 - x):
            return [st]
        outs = []
        for f in (x - bound, bound + 1 - x):
            s2 = st.copy()
            if feasible(s2, [f]):
                s2.add(f)
                outs.append(s2)
        return outs if len(outs) == 2 else [st]

    def check_back_edge(self, header, st):
        """a trace arrived back at the loop header: every kept candidate must hold for the values at the end of the iteration"""
        if getattr(self, "track_progress", False):
            moved = None
            keys = []
            for k, a0 in st.notes.get("loop_atoms", {}).get(header, {}).items():
                cur = st.env.get(k)
                keys.append(k)
                if cur is None or cur == a0:
                    continue
                if entails(st, a0 + 1 - cur) or entails(st, cur - a0 + 1):
                    moved = k
                    break
            if not hasattr(self, "progress"):
                self.progress = {}
            self.progress.setdefault(header, []).append((moved is not None, moved, keys))
            if moved is None and getattr(self, "keep_progress_fail", False):
                self.__dict__.setdefault("progress_fail", {}).setdefault(header, st)
        seen_ok = set()
        for cid, F, single in st.notes.get("loop_cands", {}).get(header, []):
            if cid in self.loop_drop_new.get(header, ()):
                continue
            mp = {}
            ok = True
            for a, k in single.items():
                v = st.env.get(k)
                if v is None:
                    ok = False
                    break
                mp[a] = v
            if ok:
                G = F.subst(mp)
                gk = G.key()
                if G == F or gk in seen_ok:
                    continue  # nothing it mentions changed on this path: it is one of the state's own facts
                ok = entails(st, G)
                if ok:
                    seen_ok.add(gk)
                elif _os.environ.get("SA_HOUDINI") == "2":
                    print("  [houdini-fail] %s loop %s cand %s: need %r <= 0 | trail %s" % (self.fn.name, header, cid, G, st.trail[-6:]))
                    print("     env: %s" % {k: repr(v) for k, v in st.env.items() if k in single.values()})
                    print("     facts: %s" % [repr(f_) for f_ in st.facts[-14:]])
            if not ok:
                self.loop_drop_new.setdefault(header, set()).add(cid)

    def declared_outside(self, header, name):
        """is local `name` declared outside the loop (or a parameter)?"""
        fn = self.fn
        for b in self.loops()[header]:
            for e in fn.blocks[b].elems:
                if e["k"] == "decl" and any(v["n"] == name for v in e["vars"]):
                    return False
        return True

    def summary_is_pure(self, callnode):
        if self.hooks is not None and hasattr(self.hooks, "pure"):
            return callnode.get("callee") in self.hooks.pure
        return False

    def range_of_key(self, k, st):
        m = st.meta.get(k)
        ct = m[2] if m else None
        for t in self.types:
            if t.get("c") == ct and "w" in t:
                return self.trange(t)
            if t.get("c") == ct and t.get("ptr"):
                return (0, MAXU[64])
        return (None, None)

    def const_step(self, n):
        """constant step of an update statement node (x++, x += c, x = x + c, x = (T)x + c); None when not constant"""
        fn = self.fn
        if n["k"] == "un":
            return self.step_of(fn.d(n["a"][0])) * (1 if "++" in n["op"] else -1)
        if n["op"] in ("+=", "-="):
            cc = fn.is_const(n["a"][1])
            if cc is not None:
                return cc * self.step_of(fn.d(n["a"][0])) * (1 if n["op"] == "+=" else -1)
            return None
        if n["op"] == "=":
            lhs = fn.d(n["a"][0])
            r = fn.d(n["a"][1])
            while r is not None and r["k"] == "cast":
                r = fn.d(r["a"][0])
            if r is not None and r["k"] == "bin" and r["op"] in ("+", "-"):
                x, y = fn.d(r["a"][0]), fn.d(r["a"][1])
                xx = x
                while xx is not None and xx["k"] == "cast":
                    xx = fn.d(xx["a"][0])
                if xx is not None and fn.show(xx) == fn.show(lhs) and fn.is_const(y) is not None:
                    xt = self.ty(x)
                    esz = (xt.get("psz") or 1) if xt.get("ptr") else 1
                    return fn.is_const(y) * esz * (1 if r["op"] == "+" else -1)
        return None

    def sym_step(self, n, header):
        """(coefficient, symbol) of an update x += v / x -= v / x = x + v / x = (T)x + v whose step is the local v - a value
        fixed during one iteration: v is written exactly once in the loop (its declaration or one assignment, outside any
        nested loop) in a block that dominates the update; None otherwise"""
        fn = self.fn
        lhs = step = None
        sign = 1
        if n["k"] == "bin" and n["op"] in ("+=", "-="):
            lhs, step, sign = fn.d(n["a"][0]), fn.d(n["a"][1]), (1 if n["op"] == "+=" else -1)
        elif n["k"] == "bin" and n["op"] == "=":
            r = fn.d(n["a"][1])
            while r is not None and r["k"] == "cast":
                r = fn.d(r["a"][0])
            if r is not None and r["k"] == "bin" and r["op"] in ("+", "-"):
                xx = fn.d(r["a"][0])
                while xx is not None and xx["k"] == "cast":
                    xx = fn.d(xx["a"][0])
                if xx is not None and fn.show(xx) == fn.show(fn.d(n["a"][0])):
                    lhs, step, sign = fn.d(r["a"][0]), fn.d(r["a"][1]), (1 if r["op"] == "+" else -1)
        while step is not None and step["k"] == "cast":
            step = fn.d(step["a"][0])
        if lhs is None or step is None or step["k"] != "var" or step.get("sc") != "local":
            return None
        lt = self.ty(lhs)
        esz = (lt.get("psz") or 1) if lt.get("ptr") else 1
        name = step["n"]
        body = self.loops()[header]
        inner = set()
        for h2, b2 in self.loops().items():
            if h2 != header and h2 in body:
                inner |= b2
        writes = []
        for b in body:
            for el in fn.blocks[b].elems:
                for x in fn.walk(el):
                    if x["k"] == "decl" and any(v["n"] == name for v in x["vars"]):
                        writes.append(b)
                    elif x["k"] == "bin" and x["op"] in ASSIGN and (fn.d(x["a"][0]) or {}).get("k") == "var" and fn.d(x["a"][0])["n"] == name:
                        writes.append(b)
                    elif x["k"] == "un" and x["op"] in ("post++", "post--", "pre++", "pre--", "addr") and (fn.d(x["a"][0]) or {}).get("k") == "var" and fn.d(x["a"][0])["n"] == name:
                        writes.append(b)
        ub = self.elem_of.get(n["id"], (None, None))[0]
        if len(writes) != 1 or writes[0] in inner or ub is None:
            return None
        from .cfg import dominators
        dom = dominators(fn)
        if writes[0] != ub and writes[0] not in dom.get(ub, ()):
            return None
        if writes[0] == ub:
            # the write must come first in the block
            seen_w = False
            for el in fn.blocks[ub].elems:
                for x in fn.walk(el):
                    if x is n and not seen_w:
                        return None
                    if (x["k"] == "decl" and any(v["n"] == name for v in x["vars"])) or (x["k"] == "bin" and x["op"] in ASSIGN and (fn.d(x["a"][0]) or {}).get("k") == "var" and fn.d(x["a"][0])["n"] == name):
                        seen_w = True
        return (sign * esz, name)

    def relation_candidates(self, header, eff, pre, direction, st):
        """Houdini-style: candidate relations  c_a*delta_a == c_b*delta_b  between two keys all of whose updates in the
        loop are constant steps (or steps by one and the same per-iteration value, sym_step) outside nested loops; a
        candidate is kept only when every path through one iteration (header -> back edge) changes the two keys in the same
        ratio, i.e. the relation is inductive."""
        fn = self.fn
        loops = self.loops()
        body = loops[header]
        inner = set()
        for h2, b2 in loops.items():
            if h2 != header and h2 in body:
                inner |= b2
        steps = {}   # key -> {(block, symbol): total step in units of the symbol (None: the constant 1)}
        bad = set()
        for x in eff:
            if x[0] in ("var", "field") and len(x) > 2:
                n = x[-1]
                k = ("v:" + x[1]) if x[0] == "var" else self.key(x[3], st)
                if k not in pre:
                    continue
                c = self.const_step(n)
                sym = None
                if c is None:
                    ss = self.sym_step(n, header)
                    if ss is not None:
                        c, sym = ss
                blk = self.elem_of.get(n["id"], (None, None))[0]
                if c is None or blk is None or blk in inner:
                    bad.add(k)
                else:
                    steps.setdefault(k, {})
                    steps[k][(blk, sym)] = steps[k].get((blk, sym), 0) + c
            elif x[0] == "var" and ("v:" + x[1]) in pre:
                bad.add("v:" + x[1])
        keys = [k for k in steps if k not in bad]
        if len(keys) < 2:
            return []
        # enumerate iteration paths
        paths = []
        stack = [(header, (header,), None)]
        guard = 0
        while stack and guard < 4000:
            guard += 1
            b, path, fz = stack.pop()
            Bb = fn.blocks[b]
            for s_id, _, pol in edges(fn, b):
                if fz is not None and isinstance(pol, bool) and pol != fz:
                    continue
                nf = (pol if Bb.sc_forced > 0 else (not pol)) if (Bb.sc_forced and Bb.term in ("||", "&&") and pol is (Bb.term == "||")) else None
                if s_id == header:
                    paths.append(path)
                elif s_id in body and s_id not in path:
                    stack.append((s_id, path + (s_id,), nf))
        if not paths or guard >= 4000:
            return []
        out = []
        for i in range(len(keys)):
            for j in range(i + 1, len(keys)):
                a, b = keys[i], keys[j]
                syms = {sy for (_, sy) in steps[a]} | {sy for (_, sy) in steps[b]}
                ratio = None
                ok = True
                for p in paths:
                    for sy in syms:
                        ta = sum(steps[a].get((x, sy), 0) for x in p)
                        tb = sum(steps[b].get((x, sy), 0) for x in p)
                        if ta == 0 and tb == 0:
                            continue
                        if ta == 0 or tb == 0:
                            ok = False
                            break
                        r = Fraction(ta, tb)
                        if ratio is None:
                            ratio = r
                        elif ratio != r:
                            ok = False
                            break
                    if not ok:
                        break
                if ok and ratio is not None:
                    out.append({a: ratio.denominator, b: -ratio.numerator})
        return out

    # ---- trace-partitioned reachability to a site
    def states_at(self, target_ids, entry_state=None, after_ids=()):
        """abstract states holding immediately before each CFG element whose id is in target_ids.
        Returns {elem id: [State...]}"""
        fn = self.fn
        targets = {}
        for tid in target_ids:
            if tid in self.elem_of:
                targets.setdefault(self.elem_of[tid], []).append(tid)
        want_blocks = {b for (b, i) in targets}
        want_exit = -1 in target_ids
        if want_exit:
            want_blocks.add(fn.exit)
        # blocks from which a wanted block is reachable
        can = set(want_blocks)
        changed = True
        preds = fn.preds()
        work = list(want_blocks)
        while work:
            x = work.pop()
            for p in preds.get(x, []):
                if p not in can:
                    can.add(p)
                    work.append(p)
        import os
        for _round in range(40):
            self.loop_drop_new = {}
            if getattr(self, "track_progress", False):
                self.progress = {}
            out = self._explore(target_ids, targets, can, want_exit, after_ids, entry_state, preds, want_blocks)
            if not self.loop_drop_new:
                return out
            if os.environ.get("SA_HOUDINI"):
                print("  [houdini] %s round %d drops %s" % (self.fn.name, _round, {h: sorted(v) for h, v in self.loop_drop_new.items()}))
            for h, ids in self.loop_drop_new.items():
                self.loop_drop.setdefault(h, set()).update(ids)
                if _round >= 5:
                    self.loop_drop[h].add("*")  # not converging: give up every candidate of this loop
        raise Limit("candidate invariants of %s did not stabilise" % self.fn.name)

    def _explore(self, target_ids, targets, can, want_exit, after_ids, entry_state, preds, want_blocks):
        fn = self.fn
        st0 = entry_state.copy() if entry_state is not None else State()
        if entry_state is None and self.hooks is not None and hasattr(self.hooks, "entry"):
            self.hooks.entry(self, st0)
        out = {tid: [] for tid in target_ids}
        for aid in after_ids:
            out[("after", aid)] = []
            if aid in self.elem_of:
                want_blocks.add(self.elem_of[aid][0])
        if after_ids:
            can = set(want_blocks)
            work = list(want_blocks)
            while work:
                x = work.pop()
                for p in preds.get(x, []):
                    if p not in can:
                        can.add(p)
                        work.append(p)
        self.paths = 0
        loops = self.loops()
        stack = [(fn.entry, st0, frozenset())]
        while stack:
            b, st, inloops = stack.pop()
            if b not in can:
                continue
            exit_only = False
            if b in loops and b not in inloops:
                parts = self.split_at_loop_entry(b, st)
                if len(parts) > 1:
                    for p_ in parts:
                        stack.append((b, p_, inloops))
                    continue
                rotated = self.first_test_true(b, st)
                st = self.enter_loop(b, st)
                inloops = inloops | {b}
                if rotated:
                    # `while (c)` whose test is known to hold on arrival is `do .. while (c)`: the loop is never left from
                    # the header before an iteration has run; it is left from the states that arrive back at the header
                    st.notes["rotated"] = frozenset(st.notes.get("rotated", ())) | {b}
            elif b in loops and b in inloops:
                self.check_back_edge(b, st)
                if b not in st.notes.get("rotated", ()):
                    continue  # back edge: covered by the havocked header state
                exit_only = True
                # what the rule declared (with its reason) to only grow has not shrunk during this iteration either
                for k_, a0_ in st.notes.get("loop_atoms", {}).get(b, {}).items():
                    if self.hooks is not None and (self.fn.name, k_) in getattr(self.hooks, "monotone_keys", ()) and st.env.get(k_) is not None:
                        st.add(a0_ - st.env[k_])
            B = fn.blocks[b]
            states = [st]
            if want_exit and b == fn.exit:
                out[-1].append(st.copy())
            for i, e in enumerate(B.elems):
                ph = getattr(self, "pre_hooks", None)
                if ph and e.get("id") in ph:
                    for s in states:
                        ph[e["id"]](self, s)
                if (b, i) in targets:
                    for tid in targets[(b, i)]:
                        out[tid].extend(s.copy() for s in states)
                nxt = []
                for s in states:
                    if _TRACE_KEY:
                        had = [k_ for k_ in s.env if _TRACE_KEY in k_]
                    r_ = self.exec_elem(e, s)
                    if _TRACE_KEY:
                        for s_ in r_:
                            gone = [k_ for k_ in had if k_ not in s_.env]
                            if gone:
                                print("  [trace] %s: %s removed by %s" % (fn.name, gone, fn.show(e)[:120]))
                    nxt.extend(r_)
                states = nxt
                if e.get("id") in after_ids:
                    out[("after", e["id"])].extend(s.copy() for s in states)
                if not states:
                    break
            if not states or B.noreturn:
                continue
            es = edges(fn, b)
            for s_id, cond, pol in es:
                if s_id not in can:
                    continue
                if b in loops and b in inloops and (s_id in loops[b]) == exit_only and (exit_only or b in st.notes.get("rotated", ())):
                    continue  # rotated loop: the header state only enters the body, a back-edge state only leaves
                # leaving a loop: drop it from the active set when the successor is outside its body
                nl = frozenset(h for h in inloops if s_id in loops[h])
                for s in states:
                    fz = s.notes.get("forced")
                    if fz is not None and fz[0] == b and isinstance(pol, bool):
                        if pol != fz[1]:
                            continue  # this branch was decided by the short-circuit exit that led here
                        s2 = s.copy()
                        succ = [s2]
                    else:
                        s2 = s.copy() if len(es) > 1 or len(states) > 1 else s
                        if cond is not None:
                            succ = self.assume(cond, pol, s2)
                        else:
                            succ = [s2]
                    for s3 in succ:
                        if B.sc_forced and B.term in ("||", "&&") and pol is (B.term == "||"):
                            s3.notes["forced"] = (s_id, pol if B.sc_forced > 0 else (not pol))
                        elif "forced" in s3.notes:
                            del s3.notes["forced"]
                        s3.trail.append((b, s_id, pol if isinstance(pol, bool) else str(pol)))
                        if B.term == "?:" and cond is not None and isinstance(pol, bool):
                            s3.notes = dict(s3.notes)
                            tn = dict(s3.notes.get("tern", {}))
                            tn[cond.get("id")] = pol
                            s3.notes["tern"] = tn
                        self.paths += 1
                        if self.paths > self.max_paths:
                            raise Limit("more than %d traces in %s" % (self.max_paths, fn.name))
                        stack.append((s_id, s3, nl))
        return out


NEGOP = {"<": ">=", "<=": ">", ">": "<=", ">=": "<", "==": "!=", "!=": "=="}
