"""Rule templates shared by the per-property modules (DESIGN.md section 3)."""
from . import cfg
from .cfg import Typestate, edges, dominators, postdominators, ev_dominates, ev_postdominates
from .facts import ASSIGN_OPS


def strip_addr(fn, n):
    n = fn.d(n)
    while n is not None and n["k"] in ("cast", "decay") and n.get("ck") in ("BitCast", "NoOp", "ArrayToPointerDecay", None):
        if n["k"] == "cast" and n.get("ck") not in ("BitCast", "NoOp"):
            break
        n = fn.d(n["a"][0])
    if n is not None and n["k"] == "un" and n["op"] == "addr":
        return fn.d(n["a"][0])
    return n


def arg(fn, call, i):
    a = call["a"]
    return fn.d(a[i]) if i < len(a) else None


def argstr(fn, call, i, addr=True, alias=True):
    """canonical string of argument i; with addr=True a leading & (and pointer casts) are stripped: the object passed by address"""
    n = arg(fn, call, i)
    if n is None:
        return None
    if addr:
        n = strip_addr(fn, n)
    return fn.show(n, alias=alias)


def where(fn, ev_or_node):
    n = ev_or_node.node if hasattr(ev_or_node, "node") else ev_or_node
    return "%s in %s()" % (fn.loc(n), fn.name)


# ---------------------------------------------------------------- locksets

LOCK_FNS = {"aws_mutex_lock": 0}
UNLOCK_FNS = {"aws_mutex_unlock": 0}


def lockset(fn, lock_fns=None, unlock_fns=None, init=frozenset(), indirect_lock=None):
    """must/may lockset: Typestate whose states are frozensets of held-lock strings (alias-resolved object paths).
    indirect_lock(fn, callnode) -> ('lock'|'unlock', objstr) | None handles function-pointer lock operations."""
    lock_fns = LOCK_FNS if lock_fns is None else lock_fns
    unlock_fns = UNLOCK_FNS if unlock_fns is None else unlock_fns

    def tr(e, s):
        if e.kind == "call":
            c = e.node.get("callee")
            if c in lock_fns:
                return s | {argstr(fn, e.node, lock_fns[c])}
            if c in unlock_fns:
                return s - {argstr(fn, e.node, unlock_fns[c])}
            if c is None and indirect_lock is not None:
                r = indirect_lock(fn, e.node)
                if r:
                    return (s | {r[1]}) if r[0] == "lock" else (s - {r[1]})
        return s

    return Typestate(fn, frozenset(init), tr)


def held_at(ts, ev):
    """locks held on every path reaching ev (must-lockset); None if the event is unreachable"""
    sts = ts.before.get(ev.pos)
    if not sts:
        return None
    out = None
    for s in sts:
        out = set(s) if out is None else (out & set(s))
    return out


# ---------------------------------------------------------------- order / follow

def must_precede(fn, A, B, dom=None):
    """every event of B is dominated by some event of A. returns list of offending B events"""
    dom = dom or dominators(fn)
    bad = []
    for b in B:
        if not any(ev_dominates(fn, a, b, dom) for a in A):
            bad.append(b)
    return bad


def flag_typestate(fn, set_pred, clear_pred, init=False):
    """boolean flag typestate: set_pred(e)/clear_pred(e) on events."""

    def tr(e, s):
        if clear_pred(e):
            return False
        if set_pred(e):
            return True
        return s

    return Typestate(fn, init, tr)


def must_follow(fn, A_pred, B_pred):
    """on every path from an A event to the function exit a B event occurs (noreturn ends exempt).
    returns True when held"""
    ts = flag_typestate(fn, A_pred, B_pred)
    return True not in ts.exit_states, ts


def reach_from(fn, ev):
    """events reachable after ev (same block later, or in blocks reachable from its block)"""
    out = []
    evs = fn.events()
    for e in evs[ev.blk]:
        if (e.idx, e.seq) > (ev.idx, ev.seq):
            out.append(e)
    seen = set()
    st = [s for s, _, _ in edges(fn, ev.blk)]
    while st:
        b = st.pop()
        if b in seen:
            continue
        seen.add(b)
        out.extend(evs[b])
        st.extend(s for s, _, _ in edges(fn, b))
    return out


# ---------------------------------------------------------------- simple intraprocedural value flow

def derives(fn, roots_pred):
    """flow-insensitive closure: set of local variable names whose value may derive from an expression
    satisfying roots_pred(node) through declarations/assignments/casts/pointer arithmetic/member-address."""
    tainted = set()

    def expr_tainted(n):
        for x in fn.walk(n, follow_refs=True):
            if roots_pred(x):
                return True
            if x["k"] == "var" and x["n"] in tainted:
                return True
        return False

    changed = True
    while changed:
        changed = False
        for b in fn.blocks.values():
            for e in b.elems:
                for n in fn.walk(e):
                    if n["k"] == "decl":
                        for v in n["vars"]:
                            if v.get("init") is not None and v["n"] not in tainted and expr_tainted(v["init"]):
                                tainted.add(v["n"])
                                changed = True
                    elif n["k"] == "bin" and n["op"] in ASSIGN_OPS:
                        l = fn.d(n["a"][0])
                        if l and l["k"] == "var" and l["n"] not in tainted and expr_tainted(n["a"][1]):
                            tainted.add(l["n"])
                            changed = True
    return tainted, expr_tainted


def cond_call(fn, cond):
    """if cond is (possibly negated) call: returns (callnode, negated)"""
    n = fn.d(cond)
    neg = False
    while n is not None and n["k"] == "un" and n["op"] == "!":
        neg = not neg
        n = fn.d(n["a"][0])
    if n is not None and n["k"] == "call":
        return n, neg
    return None, neg


def cond_atom(fn, cond):
    """strip negations: returns (node, negated)"""
    n = fn.d(cond)
    neg = False
    while n is not None and n["k"] == "un" and n["op"] == "!":
        neg = not neg
        n = fn.d(n["a"][0])
    return n, neg


def uses_var(fn, n, name):
    for x in fn.walk(n, follow_refs=True):
        if x["k"] == "var" and x["n"] == name:
            return True
    return False


def dead_after(fn, handoff_ev, varname):
    """DEAD-AFTER: events that use local/param `varname` on some path after handoff_ev before it is reassigned.
    Uses that merely pass/compare the pointer value are included (any mention of the variable counts), except
    re-assignment targets."""
    from .cfg import assigned_vars

    def tr(e, s):
        if e is handoff_ev or (e.blk, e.idx, e.seq) == handoff_ev.pos:
            return True
        if varname in assigned_vars(fn, e):
            return False
        return s

    ts = Typestate(fn, False, tr)
    bad = []
    for e in fn.all_events():
        if e.pos == handoff_ev.pos:
            continue
        if e.kind == "access" and e.node["k"] == "var" and e.node["n"] == varname and e.mode in ("r", "rw", "base", "addr"):
            if True in ts.before.get(e.pos, set()):
                bad.append(e)
    return bad
