"""Rule templates shared by the per-property modules (DESIGN.md section 3)."""
from . import cfg
from .cfg import Typestate, edges, dominators, postdominators, ev_dominates, ev_postdominates
from .facts import ASSIGN_OPS


def see_bound(fn, n):
    """a parameter of an expanded helper (sa/flatten.py) stands for the argument it was bound to"""
    n = fn.d(n)
    for _ in range(6):
        if n is not None and n["k"] == "var" and n.get("sc") == "local" and "$" in n["n"] and fn._bound(n["n"]) and n["n"] in fn.aliases():
            n = fn.d(fn.aliases()[n["n"]])
        else:
            break
    return n


def strip_addr(fn, n):
    n = see_bound(fn, n)
    # a local that holds the address of an object (`struct aws_mutex *m = &s->mutex;`) names that object
    for _ in range(3):
        if n is not None and n["k"] == "var" and n.get("sc") == "local" and n["n"] in fn.aliases():
            m = fn.aliases()[n["n"]]
            while m is not None and m["k"] == "cast" and m.get("ck") in ("BitCast", "NoOp"):
                m = fn.d(m["a"][0])
            if m is not None and m["k"] == "un" and m["op"] == "addr":
                n = m
                continue
        break
    while n is not None and n["k"] in ("cast", "decay") and n.get("ck") in ("BitCast", "NoOp", "ArrayToPointerDecay", None):
        if n["k"] == "cast" and n.get("ck") not in ("BitCast", "NoOp"):
            break
        n = fn.d(n["a"][0])
    if n is not None and n["k"] == "un" and n["op"] == "addr":
        return fn.d(n["a"][0])
    return n


def arg(fn, call, i):
    a = call["a"]
    return see_bound(fn, a[i]) if i < len(a) else None


def resolve(fn, n):
    """n seen through value-preserving casts and single-assignment local temporaries (`const size_t total = num * size;
    f(total)` resolves to the product node)"""
    for _ in range(8):
        n = uncast(fn, n)
        if n is not None and n["k"] == "var" and n.get("sc") == "local" and n["n"] in fn.aliases():
            n = fn.aliases()[n["n"]]
        else:
            break
    return n


# accessors that only read (their definitions are part of the library and are analysed under C09 / C18)
READ_ONLY_CALLS = {"aws_linked_list_front", "aws_linked_list_back", "aws_linked_list_begin", "aws_linked_list_end", "aws_linked_list_rbegin", "aws_linked_list_rend", "aws_linked_list_empty",
                   "aws_linked_list_next", "aws_linked_list_prev", "aws_linked_hash_table_get_iteration_list", "aws_linked_hash_table_get_element_count", "aws_array_list_length",
                   "aws_string_c_str", "aws_byte_cursor_from_c_str", "aws_byte_cursor_from_buf", "aws_hash_table_get_entry_count", "aws_priority_queue_size"}


LIST_FRONT = ("aws_linked_list_front", "aws_linked_list_begin")
LIST_BACK = ("aws_linked_list_back", "aws_linked_list_rbegin")


def list_pops(fn, which="front"):
    """[(event, list string)]: the calls that unlink the first (last) node of a list - aws_linked_list_pop_front(list), or
    aws_linked_list_remove(node) where node is the local that holds aws_linked_list_front/begin(list)"""
    out = []
    ends = LIST_FRONT if which == "front" else LIST_BACK
    for e in fn.calls("aws_linked_list_pop_" + which):
        out.append((e, argstr(fn, e.node, 0)))
    for e in fn.calls("aws_linked_list_remove"):
        o = origin(fn, arg(fn, e.node, 0))
        if o is not None and o["k"] == "call" and o.get("callee") in ends:
            out.append((e, argstr(fn, o, 0)))
    return out


def list_take_alls(fn):
    """[(event, destination, source)]: calls that move a whole list into another - aws_linked_list_move_all_back/front(dst,
    src), and aws_linked_list_swap_contents(a, b), which does so in both directions"""
    out = []
    for e in fn.calls(("aws_linked_list_move_all_back", "aws_linked_list_move_all_front")):
        out.append((e, argstr(fn, e.node, 0), argstr(fn, e.node, 1)))
    for e in fn.calls("aws_linked_list_swap_contents"):
        out.append((e, argstr(fn, e.node, 0), argstr(fn, e.node, 1)))
        out.append((e, argstr(fn, e.node, 1), argstr(fn, e.node, 0)))
    return out


def alloc_too_small(fn):
    """[(node, requested bytes, object bytes)]: `T *p = aws_mem_acquire(a, n)` / `aws_mem_calloc(a, k, n)` with a constant
    request smaller than one T (sizeof(p) written for sizeof(*p)): the object's later fields lie outside the block"""
    out = []

    def size_of(c):
        if c.get("callee") == "aws_mem_acquire" and len(c["a"]) >= 2:
            return fn.is_const(uncast(fn, arg(fn, c, 1)))
        if c.get("callee") == "aws_mem_calloc" and len(c["a"]) >= 3:
            a_, b_ = fn.is_const(uncast(fn, arg(fn, c, 1))), fn.is_const(uncast(fn, arg(fn, c, 2)))
            return a_ * b_ if a_ is not None and b_ is not None else None
        return None
    for b in fn.blocks.values():
        for el in b.elems:
            for x in fn.walk(el):
                pairs = []
                if x["k"] == "decl":
                    pairs = [(v.get("t"), v.get("init")) for v in x["vars"] if v.get("init") is not None]
                elif x["k"] == "bin" and x["op"] == "=":
                    pairs = [((fn.d(x["a"][0]) or {}).get("t"), x["a"][1])]
                for t_, rhs in pairs:
                    c = uncast(fn, rhs)
                    while c is not None and c["k"] == "cast":
                        c = uncast(fn, c["a"][0])
                    if c is None or c["k"] != "call" or t_ is None or t_ < 0:
                        continue
                    n = size_of(c)
                    T = fn.unit.types[t_] or {}
                    if n is not None and T.get("ptr") and T.get("rec") and T.get("psz") and n < T["psz"]:
                        out.append((c, n, T["psz"]))
    return out


def loop_cover(fn, header, body):
    """The index range a counting loop presents to its body, whichever way it counts.  Returns (var name, N node, form) when
    the body runs once for every value 0 <= v < N of the local v (written nowhere else in the loop):
      "up"    for (v = 0; v < N; v++)            "down"  for (v = N; v-- > 0;) / while (v-- != 0)
    and form "count" when the loop merely runs N times (`for (v = N; v > 0; v--)`: the body sees 1..N)."""
    c = fn.blocks[header].cond
    g_ = cmp_norm(fn, c, True) if c is not None else None
    if not g_ or g_[2] is None:
        return None
    l_, r_ = uncast(fn, g_[0]), uncast(fn, g_[2])
    flip = {"<": ">", ">": "<", "!=": "!="}
    for v_, op_, o_ in ((l_, g_[1], r_), (r_, flip.get(g_[1]), l_)):
        if v_ is None or op_ is None:
            continue
        postdec = False
        if v_["k"] == "un" and v_["op"] == "post--":
            v_ = fn.d(v_["a"][0])
            postdec = True
        if v_ is None or v_["k"] != "var":
            continue
        steps = []
        for b_ in set(body) | {header}:
            for el in fn.blocks[b_].elems:
                for x in fn.walk(el):
                    tgt = fn.d(x["a"][0]) if x.get("a") else None
                    if tgt is not None and tgt["k"] == "var" and tgt["n"] == v_["n"]:
                        if x["k"] == "un" and x["op"] in ("post++", "pre++"):
                            steps.append(1)
                        elif x["k"] == "un" and x["op"] in ("post--", "pre--"):
                            steps.append(-1)
                        elif x["k"] == "un" and x["op"] == "addr":
                            steps.append(0)
                        elif x["k"] == "bin" and x["op"] in ASSIGN_OPS:
                            steps.append(0)
        init = None
        for e_ in fn.all_events():
            if e_.kind == "decl" and e_.blk not in body:
                for vv in e_.node["vars"]:
                    if vv["n"] == v_["n"] and vv.get("init") is not None:
                        init = vv["init"]
        if init is None:
            for b_ in fn.blocks.values():
                if b_.id in body or b_.id == header:
                    continue
                for el in b_.elems:
                    if el["k"] == "bin" and el["op"] == "=" and (fn.d(el["a"][0]) or {}).get("k") == "var" and fn.d(el["a"][0])["n"] == v_["n"]:
                        init = el["a"][1]
        if init is None:
            continue
        if op_ == "<" and steps == [1] and not postdec and fn.is_const(uncast(fn, init)) == 0:
            return (v_["n"], o_, "up")
        if op_ in (">", "!=") and steps == [-1] and fn.is_const(o_) == 0:
            return (v_["n"], uncast(fn, init), "down" if postdec else "count")
    return None


def pure_callee(fn, name, depth=0):
    """the function `name`, defined in fn's translation unit, only computes: it stores to nothing but its own scalar locals
    and calls nothing but functions of the same kind (a cached result of another call cannot be made stale by it)"""
    if name in READ_ONLY_CALLS:
        return True
    memo = fn.unit.__dict__.setdefault("_pure_callee", {})
    if name in memo:
        return memo[name]
    memo[name] = False  # recursion: not pure
    gs = [g for g in fn.unit.functions if g.name == name and g.blocks]
    ok = len(gs) == 1 and depth < 4
    if ok:
        g = gs[0]
        for e in g.all_events():
            if e.kind == "access" and e.mode and ("w" in e.mode or e.mode == "addr"):
                if not (e.node["k"] == "var" and e.node.get("sc") in ("local", "param") and "w" in e.mode):
                    ok = False
            elif e.kind == "call":
                c = e.node.get("callee")
                if not c or not (c.startswith(("aws_fatal_assert", "__builtin_expect")) or pure_callee(fn, c, depth + 1)):
                    ok = False
            elif e.kind == "asm":
                ok = False
            if not ok:
                break
    memo[name] = ok
    return ok


def origin(fn, n, use=None):
    """n seen through casts and through a local that has exactly one definition - its declaration's initialiser, a call
    included (`const size_t size = get_size(x); if (i >= size)`).  With `use` (an event): only when no other call lies
    between the declaration and the use on the dominator chain (the cached result cannot be stale)."""
    for _ in range(6):
        n = uncast(fn, n)
        if n is None or n["k"] != "var" or n.get("sc") != "local":
            return n
        a = fn.aliases().get(n["n"]) or fn.retdefs().get(n["n"])
        if a is not None:
            n = a
            continue
        decls = [(e, v) for e in fn.all_events() if e.kind == "decl" for v in e.node["vars"] if v["n"] == n["n"]]
        if len(decls) > 1 and use is not None:
            # the name is declared in several scopes: the declaration in force is the one that dominates the use
            dom_ = dominators(fn)
            decls = [d for d in decls if ev_dominates(fn, d[0], use, dom_)]
            if len(decls) > 1:
                decls = [d for d in decls if all(o is d or ev_dominates(fn, o[0], d[0], dom_) for o in decls)]
            scoped = True
        else:
            scoped = False
        if len(decls) != 1 or decls[0][1].get("init") is None:
            return n
        name = n["n"]
        rewritten = False
        for b in fn.blocks.values():
            for el in b.elems:
                for x in fn.walk(el):
                    if x["k"] == "bin" and x["op"] in ASSIGN_OPS and (fn.d(x["a"][0]) or {}).get("k") == "var" and fn.d(x["a"][0])["n"] == name:
                        rewritten = True
                    if x["k"] == "un" and x["op"] in ("addr", "pre++", "pre--", "post++", "post--") and (fn.d(x["a"][0]) or {}).get("k") == "var" and fn.d(x["a"][0])["n"] == name:
                        rewritten = True
        if rewritten and not scoped:
            return n
        init = uncast(fn, decls[0][1]["init"])
        if use is not None and init is not None and init["k"] == "call":
            dom = dominators(fn)
            between = [e for e in fn.all_events() if e.kind == "call" and e.node is not init and ev_dominates(fn, decls[0][0], e, dom) and ev_dominates(fn, e, use, dom)
                       and not (e.node.get("callee") or "").startswith(("aws_fatal_assert", "__builtin_expect")) and not (e.node.get("callee") and pure_callee(fn, e.node["callee"]))]
            if between:
                return n
        n = init
    return n


def argstr(fn, call, i, addr=True, alias=True):
    """canonical string of argument i; with addr=True a leading & (and pointer casts) are stripped: the object passed by address"""
    n = arg(fn, call, i)
    if n is None:
        return None
    if addr:
        n = strip_addr(fn, n)
    return fn.show(n, alias=alias)


def where(fn, ev_or_node):
    n = ev_or_node.node if hasattr(ev_or_node, "node") else ev_or_node
    return "%s in %s()" % (fn.loc(n), fn.name)


# ---------------------------------------------------------------- locksets

LOCK_FNS = {"aws_mutex_lock": 0}
UNLOCK_FNS = {"aws_mutex_unlock": 0}


def lockset(fn, lock_fns=None, unlock_fns=None, init=frozenset(), indirect_lock=None):
    """must/may lockset: Typestate whose states are frozensets of held-lock strings (alias-resolved object paths).
    indirect_lock(fn, callnode) -> ('lock'|'unlock', objstr) | None handles function-pointer lock operations."""
    lock_fns = LOCK_FNS if lock_fns is None else lock_fns
    unlock_fns = UNLOCK_FNS if unlock_fns is None else unlock_fns

    def tr(e, s):
        if e.kind == "call":
            c = e.node.get("callee")
            if c in lock_fns:
                return s | {argstr(fn, e.node, lock_fns[c])}
            if c in unlock_fns:
                return s - {argstr(fn, e.node, unlock_fns[c])}
            if c is None and indirect_lock is not None:
                r = indirect_lock(fn, e.node)
                if r:
                    return (s | {r[1]}) if r[0] == "lock" else (s - {r[1]})
        return s

    return Typestate(fn, frozenset(init), tr)


def held_at(ts, ev):
    """locks held on every path reaching ev (must-lockset); None if the event is unreachable"""
    sts = ts.before.get(ev.pos)
    if not sts:
        return None
    out = None
    for s in sts:
        out = set(s) if out is None else (out & set(s))
    return out


# ---------------------------------------------------------------- order / follow

def must_precede(fn, A, B, dom=None):
    """every event of B is dominated by some event of A. returns list of offending B events"""
    dom = dom or dominators(fn)
    bad = []
    for b in B:
        if not any(ev_dominates(fn, a, b, dom) for a in A):
            bad.append(b)
    return bad


def flag_typestate(fn, set_pred, clear_pred, init=False):
    """boolean flag typestate: set_pred(e)/clear_pred(e) on events."""

    def tr(e, s):
        if clear_pred(e):
            return False
        if set_pred(e):
            return True
        return s

    return Typestate(fn, init, tr)


def must_follow(fn, A_pred, B_pred):
    """on every path from an A event to the function exit a B event occurs (noreturn ends exempt).
    returns True when held"""
    ts = flag_typestate(fn, A_pred, B_pred)
    return True not in ts.exit_states, ts


def reach_from(fn, ev):
    """events reachable after ev (same block later, or in blocks reachable from its block)"""
    out = []
    evs = fn.events()
    for e in evs[ev.blk]:
        if (e.idx, e.seq) > (ev.idx, ev.seq):
            out.append(e)
    seen = set()
    st = [s for s, _, _ in edges(fn, ev.blk)]
    while st:
        b = st.pop()
        if b in seen:
            continue
        seen.add(b)
        out.extend(evs[b])
        st.extend(s for s, _, _ in edges(fn, b))
    return out


# ---------------------------------------------------------------- simple intraprocedural value flow

def derives(fn, roots_pred):
    """flow-insensitive closure: set of local variable names whose value may derive from an expression
    satisfying roots_pred(node) through declarations/assignments/casts/pointer arithmetic/member-address."""
    tainted = set()

    def expr_tainted(n):
        for x in fn.walk(n, follow_refs=True):
            if roots_pred(x):
                return True
            if x["k"] == "var" and x["n"] in tainted:
                return True
        return False

    changed = True
    while changed:
        changed = False
        for b in fn.blocks.values():
            for e in b.elems:
                for n in fn.walk(e):
                    if n["k"] == "decl":
                        for v in n["vars"]:
                            if v.get("init") is not None and v["n"] not in tainted and expr_tainted(v["init"]):
                                tainted.add(v["n"])
                                changed = True
                    elif n["k"] == "bin" and n["op"] in ASSIGN_OPS:
                        l = fn.d(n["a"][0])
                        if l and l["k"] == "var" and l["n"] not in tainted and expr_tainted(n["a"][1]):
                            tainted.add(l["n"])
                            changed = True
    return tainted, expr_tainted


def cond_call(fn, cond):
    """if cond is (possibly negated) call: returns (callnode, negated)"""
    n = fn.d(cond)
    neg = False
    while n is not None and n["k"] == "un" and n["op"] == "!":
        neg = not neg
        n = fn.d(n["a"][0])
    if n is not None and n["k"] == "call":
        return n, neg
    return None, neg


def cond_atom(fn, cond):
    """strip negations: returns (node, negated)"""
    n = fn.d(cond)
    neg = False
    while n is not None and n["k"] == "un" and n["op"] == "!":
        neg = not neg
        n = fn.d(n["a"][0])
    return n, neg


def uses_var(fn, n, name):
    for x in fn.walk(n, follow_refs=True):
        if x["k"] == "var" and x["n"] == name:
            return True
    return False


def dead_after(fn, handoff_ev, varname):
    """DEAD-AFTER: events that use local/param `varname` on some path after handoff_ev before it is reassigned.
    Uses that merely pass/compare the pointer value are included (any mention of the variable counts), except
    re-assignment targets."""
    from .cfg import assigned_vars

    def tr(e, s):
        if e is handoff_ev or (e.blk, e.idx, e.seq) == handoff_ev.pos:
            return True
        if varname in assigned_vars(fn, e):
            return False
        return s

    ts = Typestate(fn, False, tr, correlate=True)
    bad = []
    for e in fn.all_events():
        if e.pos == handoff_ev.pos:
            continue
        if e.kind == "access" and e.node["k"] == "var" and e.node["n"] == varname and e.mode in ("r", "rw", "base", "addr"):
            if True in ts.before.get(e.pos, set()):
                bad.append(e)
    return bad


# ---------------------------------------------------------------- interprocedural lock context

GLOBAL_LOCKS = set()


def _map_lock(lockstr, argstrs, params):
    """rewrite a caller-side lock string into the callee's parameter names (locks that are file-scope objects pass through)"""
    if lockstr in GLOBAL_LOCKS:
        return lockstr
    best = None
    for a, p in zip(argstrs, params):
        if a and (lockstr == a or lockstr.startswith(a + "->") or lockstr.startswith(a + ".")):
            if best is None or len(a) > len(best[0]):
                best = (a, p)
    if best is None:
        return None
    return best[1] + lockstr[len(best[0]):]


CALLBACKS = {"aws_hash_table_foreach": (1, 2, 0)}  # callee -> (callback arg, context arg, callback's context parameter index)
WAIT_PRED = {"aws_condition_variable_wait_pred": (1, 2, 3), "aws_condition_variable_wait_for_pred": (1, 3, 4)}  # (mutex, pred, ctx) arg indices


def entry_locksets(fns, requires, lock_kw=None, rounds=4):
    """fns: {name: Fn}.  requires: names of functions analysed as 'requires-lock' (static helpers and wait predicates):
    their entry lockset is the intersection, over all their call sites / wait sites in fns, of the caller's must-lockset
    mapped into the callee's parameter names.  Returns ({name: frozenset}, {name: [site descriptions]}, problems)"""
    lock_kw = lock_kw or {}
    entry = {n: frozenset() for n in fns}
    TOP = None
    for n in requires:
        entry[n] = TOP  # optimistic start (greatest fixpoint): needed for self-recursive requires-lock functions
    sites = {n: [] for n in requires}
    problems = []
    for _ in range(rounds + 2):
        new = {n: None for n in requires}
        sites = {n: [] for n in requires}
        for cname, f in fns.items():
            if entry.get(cname, frozenset()) is TOP:
                # caller's own context not known yet: its sites cannot lower anything in this round
                for e in f.all_events():
                    if e.kind == "call" and e.node.get("callee") in requires:
                        sites[e.node["callee"]].append("%s:%d" % (cname, e.line))
                continue
            ts = lockset(f, init=entry.get(cname, frozenset()), **lock_kw)
            for e in f.all_events():
                if e.kind != "call":
                    continue
                c = e.node.get("callee")
                held = held_at(ts, e)
                if held is None:
                    continue
                if c in requires and c in fns:
                    callee = fns[c]
                    args = [argstr(f, e.node, i, addr=False) for i in range(len(e.node["a"]))]
                    params = [p["n"] for p in callee.params]
                    mapped = set()
                    for L in held:
                        m = _map_lock(L, args, params)
                        if m:
                            mapped.add(m)
                    new[c] = mapped if new[c] is None else (new[c] & mapped)
                    sites[c].append("%s:%d" % (cname, e.line))
                if c in CALLBACKS:
                    cbi, cxi, pidx = CALLBACKS[c]
                    p = arg(f, e.node, cbi)
                    if p is not None and p["k"] == "fn" and p["n"] in requires and p["n"] in fns:
                        callee = fns[p["n"]]
                        ctx = argstr(f, e.node, cxi, addr=False)
                        mapped = set()
                        for L in held:
                            m = _map_lock(L, [ctx], [callee.params[pidx]["n"]]) if len(callee.params) > pidx else None
                            if m:
                                mapped.add(m)
                        new[p["n"]] = mapped if new[p["n"]] is None else (new[p["n"]] & mapped)
                        sites[p["n"]].append("%s:%d(callback of %s)" % (cname, e.line, c))
                if c in WAIT_PRED:
                    mi, pi, ci = WAIT_PRED[c]
                    p = arg(f, e.node, pi)
                    if p is not None and p["k"] == "fn" and p["n"] in requires and p["n"] in fns:
                        callee = fns[p["n"]]
                        m_obj = argstr(f, e.node, mi)
                        ctx = argstr(f, e.node, ci, addr=False)
                        mapped = set()
                        if m_obj in held and m_obj in GLOBAL_LOCKS:
                            mapped.add(m_obj)
                        elif m_obj in held and callee.params:
                            m = _map_lock(m_obj, [ctx], [callee.params[0]["n"]])
                            if m:
                                mapped.add(m)
                        new[p["n"]] = mapped if new[p["n"]] is None else (new[p["n"]] & mapped)
                        sites[p["n"]].append("%s:%d(wait predicate)" % (cname, e.line))
        changed = False
        for n in requires:
            if new[n] is None:
                continue  # no analysable site yet
            v = frozenset(new[n])
            if entry.get(n) is TOP or v != entry.get(n):
                if entry.get(n) is not TOP:
                    v = v & entry[n]
                if v != entry.get(n):
                    entry[n] = v
                    changed = True
        if not changed:
            break
    for n in requires:
        if entry.get(n) is TOP:
            entry[n] = frozenset()
    # a requires-lock function must not escape as a plain function value (other than as a wait predicate) and must have a site
    for n in requires:
        if n in fns and not sites.get(n):
            problems.append("requires-lock function %s has no call site in the analysed files" % n)
    return entry, sites, problems


def fn_value_uses(fns, name):
    """places where function `name` is used as a value (not as a direct callee)"""
    out = []
    for f in fns.values():
        for b in f.blocks.values():
            for el in b.elems:
                for n in f.walk(el):
                    if n["k"] == "call":
                        for i, a in enumerate(n["a"]):
                            x = f.d(a)
                            if x is not None and x["k"] == "fn" and x["n"] == name:
                                out.append((f, n, i))
    return out


# ---------------------------------------------------------------- comparisons and guards

NEG = {"<": ">=", "<=": ">", ">": "<=", ">=": "<", "==": "!=", "!=": "=="}
FLIP = {"<": ">", "<=": ">=", ">": "<", ">=": "<=", "==": "==", "!=": "!="}


def cmp_norm(fn, cond, pol):
    """normalise a branch condition taken with polarity pol (True/False) to (lhs, op, rhs) nodes;
    truthiness tests become (x, '!=', None) / (x, '==', None)."""
    n = fn.d(cond)
    if n is None or not isinstance(pol, bool):
        return None
    while n["k"] == "un" and n["op"] == "!":
        pol = not pol
        n = fn.d(n["a"][0])
    while n["k"] == "cast" and n.get("ck") in ("IntegralToBoolean", "PointerToBoolean", "IntegralCast"):
        n = fn.d(n["a"][0])
        while n["k"] == "un" and n["op"] == "!":
            pol = not pol
            n = fn.d(n["a"][0])
    # a boolean temporary (`const bool last = (i == n); if (!last)`) stands for the comparison it was initialised with
    for _ in range(4):
        if n["k"] == "var" and n.get("sc") == "local" and (n["n"] in fn.aliases() or n["n"] in fn.retdefs()):
            m = fn.aliases().get(n["n"]) or fn.retdefs()[n["n"]]
            while m is not None and m["k"] == "cast":
                m = fn.d(m["a"][0])
            if m is not None and ((m["k"] == "bin" and m["op"] in NEG) or (m["k"] == "un" and m["op"] == "!")):
                n = m
                while n["k"] == "un" and n["op"] == "!":
                    pol = not pol
                    n = fn.d(n["a"][0])
                continue
        break
    if n["k"] == "bin" and n["op"] in NEG:
        op = n["op"] if pol else NEG[n["op"]]
        return (fn.d(n["a"][0]), op, fn.d(n["a"][1]))
    return (n, "!=" if pol else "==", None)


def _expand_logic(fn, cond, pol, blk, depth=0):
    """a decision on a boolean temporary that holds a conjunction / disjunction implies decisions on its operands:
    `ok = a && b; if (ok)` => a and b; `bad = a || b; if (!bad)` => !a and !b"""
    n = fn.d(cond)
    p = pol
    while n is not None and ((n["k"] == "un" and n["op"] == "!") or n["k"] == "cast"):
        if n["k"] == "un":
            p = not p
        n = fn.d(n["a"][0])
    if depth < 3 and n is not None and n["k"] == "var" and n.get("sc") == "local" and n["n"] in fn.aliases():
        m = fn.aliases()[n["n"]]
        while m is not None and m["k"] == "cast":
            m = fn.d(m["a"][0])
        if m is not None and m["k"] == "bin" and ((m["op"] == "&&" and p) or (m["op"] == "||" and not p)):
            out = []
            for a in m["a"]:
                out.extend(_expand_logic(fn, a, p, blk, depth + 1))
            return out
    if depth > 0 and n is not None and n["k"] == "bin" and ((n["op"] == "&&" and p) or (n["op"] == "||" and not p)):
        out = []
        for a in n["a"]:
            out.extend(_expand_logic(fn, a, p, blk, depth + 1))
        return out
    return [(cond, pol, blk)]


def guards(fn, ev, dom=None):
    """branch decisions that every path to ev must have taken: list of (cond, polarity, block) for each dominating
    two-way branch one of whose successors dominates (or is) ev's block while the other cannot reach ev's block"""
    dom = dom or dominators(fn)
    out = []
    target = ev.blk
    reach_cache = {}

    def reaches(src, avoid):
        key = (src, avoid)
        if key in reach_cache:
            return reach_cache[key]
        seen = set()
        st = [src]
        r = False
        while st:
            b = st.pop()
            if b == avoid:
                continue
            if b == target:
                r = True
                break
            if b in seen:
                continue
            seen.add(b)
            st.extend(s for s, _, _ in edges(fn, b))
        reach_cache[key] = r
        return r

    for b in dom.get(target, ()):
        es = edges(fn, b)
        if len(es) != 2 or es[0][1] is None or not isinstance(es[0][2], bool):
            continue
        (s0, c0, p0), (s1, c1, p1) = es
        r0 = s0 == target or reaches(s0, b)
        r1 = s1 == target or reaches(s1, b)
        if r0 and not r1:
            out.extend(_expand_logic(fn, c0, p0, b))
        elif r1 and not r0:
            out.extend(_expand_logic(fn, c1, p1, b))
    return out


def same(fn, a, b, alias=True):
    if a is None or b is None:
        return a is b
    return fn.show(a, alias=alias) == fn.show(b, alias=alias)


def indirect_via(fn, callnode):
    """for an indirect call: (record, field) of the function pointer when it is read from a struct field"""
    f = fn.d(callnode.get("fn"))
    while f is not None and f["k"] in ("un",) and f["op"] == "deref":
        f = fn.d(f["a"][0])
    if f is not None and f["k"] == "member":
        return (f.get("rec"), f["f"])
    if f is not None and f["k"] == "var":
        # a local that only holds the pointer read from a field (`fn_t *const cb = task->fn; cb(...)`) stands for that field
        a = fn.aliases().get(f["n"]) if f.get("sc") == "local" else None
        for _ in range(3):
            while a is not None and a["k"] == "cast":
                a = fn.d(a["a"][0])
            if a is not None and a["k"] == "member":
                return (a.get("rec"), a["f"])
            if a is not None and a["k"] == "var" and a.get("sc") == "local":
                a = fn.aliases().get(a["n"])
            else:
                break
        return ("<var>", f["n"])
    return None


def uncast(fn, n):
    n = fn.d(n)
    while n is not None and n["k"] == "cast":
        n = fn.d(n["a"][0])
    return n


def call_test(fn, cond, pol):
    """branch on a call result: returns (callnode, 'zero'|'nonzero') for `call`, `!call`, `call == 0`, `call != 0`, `0 == call`"""
    g = cmp_norm(fn, cond, pol)
    if not g:
        return None
    l, op, r = g
    l = uncast(fn, l)
    if r is None:
        if l is not None and l["k"] == "call":
            return (l, "nonzero" if op == "!=" else "zero")
        return None
    r = uncast(fn, r)
    if l is not None and l["k"] == "call" and fn.is_const(r) == 0 and op in ("==", "!="):
        return (l, "zero" if op == "==" else "nonzero")
    if r is not None and r["k"] == "call" and fn.is_const(l) == 0 and op in ("==", "!="):
        return (r, "zero" if op == "==" else "nonzero")
    return None
