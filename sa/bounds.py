"""BOUND obligations: every explicit memory access through a tracked buffer stays inside it (uses NUM)."""
from .num import Num, Poly, State, Limit, entails
from .awslib import AwsHooks, in_bounds, MEMFNS


def access_sites(fn, include_addr=False):
    """(element id, kind, node) for memory-primitive calls, subscripts and scalar dereferences.
    `&a[i]` and `&*p` compute an address and are not accesses (unless include_addr: then the element addressed must exist,
    for code that dereferences the resulting pointer through ->)."""
    sites = []

    def rec(n, eid, addr_ctx):
        if n is None or n.get("k") == "ref":
            return
        k = n["k"]
        if k == "call":
            if n.get("callee") in MEMFNS:
                sites.append((eid, "mem", n))
            rec(n.get("fn"), eid, False)
            for a in n.get("a", []):
                rec(a, eid, False)
            return
        if k == "index":
            if not addr_ctx or include_addr:
                sites.append((eid, "index", n))
            rec(n["a"][0], eid, False)
            rec(n["a"][1], eid, False)
            return
        if k == "un" and n["op"] == "deref":
            t = fn.unit.types[n["t"]] if n.get("t", -1) >= 0 else {}
            if not addr_ctx and ("w" in t or t.get("ptr")):
                sites.append((eid, "deref", n))
            rec(n["a"][0], eid, False)
            return
        if k == "un" and n["op"] == "addr":
            rec(n["a"][0], eid, True)
            return
        if k == "member":
            # &p->f : the base pointer is not dereferenced for a field address; p->f in value context reads the field only
            rec(n["a"][0], eid, addr_ctx if not n["arrow"] else False)
            return
        if k == "decl":
            for v in n["vars"]:
                rec(v.get("init"), eid, False)
            return
        if k == "asm":
            for c in n.get("outputs", []) + n.get("inputs", []):
                rec(c, eid, False)
            return
        for c in n.get("a", []) or []:
            rec(c, eid, False)

    for b in fn.blocks.values():
        for e in b.elems:
            rec(e, e["id"], False)
    return sites


class EntryExtents:
    """hooks wrapper adding caller-provided (pointer parameter, extent) contracts at function entry"""

    def __init__(self, base, fn, pairs):
        self.base = base
        self.fn = fn
        self.pairs = pairs or {}
        self.pure = getattr(base, "pure", set())

    def entry(self, num, st):
        if hasattr(self.base, "entry"):
            self.base.entry(num, st)
        ptypes = {p["n"]: p["t"] for p in self.fn.params}
        for ptr, ext in self.pairs.items():
            if ptr not in ptypes:
                continue
            pn = {"k": "var", "n": ptr, "sc": "param", "t": ptypes[ptr], "id": -1}
            pv = num.read(pn, st)
            if isinstance(ext, int):
                ev = Poly.const(ext)
            elif isinstance(ext, tuple) and ext[0] == "field":  # ("field", pointer param, record, field)
                bp = num.read({"k": "var", "n": ext[1], "sc": "param", "t": ptypes[ext[1]], "id": -1}, st)
                ev = num.field(st, "(" + repr(bp) + ")->" + ext[3], ext[2], ext[3])
            elif isinstance(ext, tuple):  # (len param, element size)
                ev = num.read({"k": "var", "n": ext[0], "sc": "param", "t": ptypes[ext[0]], "id": -1}, st) * ext[1]
            else:
                ev = num.read({"k": "var", "n": ext, "sc": "param", "t": ptypes[ext], "id": -1}, st)
            (m, c), = pv.t.items()
            st.extent[m[0]] = ev

    def fresh_field(self, *a):
        return self.base.fresh_field(*a)

    def call(self, *a):
        return self.base.call(*a)


def check_function(fn, prog, hooks=None, want=None, max_paths=6000, pairs=None):
    """returns list of result dicts {site, line, kind, status, detail, expr, traces}"""
    hooks = hooks or AwsHooks()
    if pairs:
        hooks = EntryExtents(hooks, fn, pairs)
    num = Num(fn, prog, hooks, max_paths=max_paths)
    sites = access_sites(fn)
    if want is not None:
        sites = [s for s in sites if want(s)]
    if not sites:
        return [], num
    try:
        states = num.states_at({s[0] for s in sites})
    except Limit as ex:
        return [{"line": fn.line, "kind": "limit", "status": "limit", "detail": str(ex), "expr": fn.name, "traces": 0, "node": None}], num
    out = []
    for eid, kind, n in sites:
        sts = states.get(eid, [])
        res = {"line": n.get("loc", [0])[0], "kind": kind, "expr": fn.show(n)[:120], "traces": len(sts), "node": n, "status": "ok", "detail": ""}
        if not sts:
            res["status"] = "unreachable"
            out.append(res)
            continue
        checks = []
        for st in sts:
            s2 = st.copy()
            for (D, sz, mode) in addr_size(num, s2, kind, n):
                r = in_bounds(s2, D, sz)
                checks.append((r, s2, mode))
        worst = "ok"
        det = ""
        oks = 0
        for rr, s2, mode in checks:
            status, d = rr[0], rr[1]
            if status == "fail":
                worst = "fail"
                det = d + " | trail " + str(s2.trail[-6:])
                break
            if status == "untracked" and worst == "ok":
                worst = "untracked"
                det = d
            if status == "ok":
                oks += 1
                if not det:
                    det = d
        res["status"] = worst
        res["detail"] = det
        out.append(res)
    return out, num


def addr_size(num, st, kind, n):
    fn = num.fn
    if kind == "mem":
        out = []
        for (pi, si, mode) in MEMFNS[n["callee"]]:
            if pi >= len(n["a"]):
                continue
            D = num.val(n["a"][pi], st)
            if si == "mul12":
                a, b = num.val(n["a"][1], st), num.val(n["a"][2], st)
                sz = a * b if (a is not None and b is not None and a.degree() + b.degree() <= 2) else None
            else:
                sz = num.val(n["a"][si], st)
            # a zero-length access touches nothing: [D, D+0)
            out.append((D, sz, mode))
        return out
    if kind == "index":
        b = num.val(fn.d(n["a"][0]), st)
        i = num.val(n["a"][1], st)
        bt = num.ty(fn.d(n["a"][0]))
        esz = bt.get("psz") or bt.get("esz") or 1
        if b is None or i is None:
            return [(None, None, "rw")]
        return [(b + i * esz, Poly.const(esz), "rw")]
    if kind == "deref":
        p = num.val(fn.d(n["a"][0]), st)
        t = num.ty(n)
        sz = (t.get("w", 64) // 8) if "w" in t else 8
        return [(p, Poly.const(sz), "rw")]
    return []


def std_states(prog, fn, hooks, max_paths=20000):
    """one NUM run per (function, hooks class) and program: abstract states before every access site, before every
    return statement and at the exit.  Rules that look at the same function share it."""
    memo = prog.__dict__.setdefault("_std_states", {})
    key = (fn.name, fn.file, type(hooks).__name__)
    if key not in memo:
        num = Num(fn, prog, hooks, max_paths=max_paths)
        num.track_progress = True
        ids = {s[0] for s in access_sites(fn)} | {x["id"] for b_ in fn.blocks.values() for x in b_.elems if x["k"] == "ret"} | {-1}
        try:
            memo[key] = (num, num.states_at(ids), None)
        except Limit as ex:
            memo[key] = (num, {}, ex)
    return memo[key]
