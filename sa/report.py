"""Obligation bookkeeping, known findings, evidence file, exit codes."""
import json
import os
import sys
import time

VERIF = os.path.dirname(os.path.dirname(os.path.abspath(__file__)))
# where evidence/ and out/ are written: /verif itself, except when a seeded variant in a scratch worktree is being examined
# (tools/confirm_seeds.py), whose reports must not replace the evidence of /repo
OUTROOT = os.environ.get("VERIF_SCRATCH_OUT") or VERIF


class AnalysisBroken(Exception):
    pass


class Report:
    def __init__(self, pid, tier, cmd):
        self.pid = pid
        self.tier = tier
        self.cmd = cmd
        self.t0 = time.time()
        self.obligations = []  # dicts
        self.violations = []
        self.known_hits = []
        self.broken_msgs = []
        self.rule_counts = {}
        self.functions = set()
        self.units = []
        self.configs = set()
        self.not_decided = []
        self.decided = []
        self.assumptions = []
        self.assumed_sites = []
        self.controls = []
        self.notes = []
        self.flag_source = ""
        self.only = None  # replay: restrict reporting to one instance
        kf = os.path.join(VERIF, "known_findings.json")
        self.known = []
        self.fixed = []
        if os.path.isfile(kf):
            with open(kf) as f:
                j = json.load(f)
            self.known = [k for k in j.get("known", []) if k["property"] == pid]
            self.fixed = [k for k in j.get("fixed", []) if k["property"] == pid]

    # -- recording
    def fn(self, f):
        self.functions.add("%s (%s:%d)" % (f.name, f.file.replace("/repo/", ""), f.line))

    def ok(self, rule, instance, where="", detail=""):
        self.rule_counts.setdefault(rule, [0, 0])
        self.rule_counts[rule][0] += 1
        self.rule_counts[rule][1] += 1
        self.obligations.append({"rule": rule, "instance": instance, "where": where, "ok": True, "detail": detail})

    def fail(self, rule, instance, where, detail, witness=None):
        self.rule_counts.setdefault(rule, [0, 0])
        self.rule_counts[rule][0] += 1
        ob = {"rule": rule, "instance": instance, "where": where, "ok": False, "detail": detail}
        if witness:
            ob["witness"] = witness
        self.obligations.append(ob)
        for k in self.known:
            if k["rule"] == rule and k["instance"] == instance:
                self.known_hits.append((k, ob))
                return
        self.violations.append(ob)

    def check(self, cond, rule, instance, where, detail_ok="", detail_fail="", witness=None):
        if cond:
            self.ok(rule, instance, where, detail_ok)
        else:
            self.fail(rule, instance, where, detail_fail or detail_ok, witness)
        return bool(cond)

    def broken(self, msg):
        self.broken_msgs.append(msg)

    def require(self, cond, msg):
        if not cond:
            self.broken(msg)
        return bool(cond)

    def control(self, name, flagged):
        self.controls.append({"control": name, "flagged": bool(flagged)})
        if not flagged:
            self.broken("control %s was not flagged: the rule cannot be trusted" % name)

    # -- finishing
    def finish(self):
        wall = time.time() - self.t0
        n_ob = len(self.obligations)
        n_ok = sum(1 for o in self.obligations if o["ok"])
        samples = []
        seen_rules = set()
        for o in self.obligations:
            if o["rule"] not in seen_rules and o["ok"]:
                seen_rules.add(o["rule"])
                samples.append({k: o[k] for k in ("rule", "instance", "where", "detail")})
            if len(samples) >= 12:
                break
        outdir = os.path.join(OUTROOT, "out", self.pid)
        os.makedirs(outdir, exist_ok=True)
        lines = []
        code = 0
        by_finding = {}
        for k, ob in self.known_hits:
            by_finding.setdefault((k["rule"], k["instance"]), (k, []))[1].append(ob["where"])
        for (rule, inst), (k, wheres) in by_finding.items():
            lines.append("KNOWN-FINDING: property=%s %s [%s %s at %s]" % (self.pid, k["what"], rule, inst, "; ".join(wheres)))
        # a listed known finding that no longer fires is reported (informational) so the file can be updated
        hit_keys = {(k["rule"], k["instance"]) for k, _ in self.known_hits}
        for k in self.known:
            if (k["rule"], k["instance"]) not in hit_keys:
                self.notes.append("known finding %s/%s did not fire on this tree" % (k["rule"], k["instance"]))
        for i, v in enumerate(self.violations):
            p = os.path.join(outdir, "violation_%d.json" % i)
            with open(p, "w") as f:
                json.dump({"property": self.pid, **v}, f, indent=1)
            lines.append("VIOLATION property=%s replay=%s" % (self.pid, p))
            if i < 15:
                lines.append("  rule=%s instance=%s at %s: %s" % (v["rule"], v["instance"], v["where"], v["detail"]))
            code = 1
        if self.broken_msgs:
            for m in self.broken_msgs:
                lines.append("ANALYSIS-BROKEN property=%s: %s" % (self.pid, m))
            if code == 0:
                code = 2
        ev = {
            "property_id": self.pid,
            "tier": self.tier,
            "seed": int(os.environ.get("VERIF_SEED", "0") or 0),
            "level": "other",
            "coverage": {
                "explanation": ("Static analysis of /repo's current working tree (clang 14 LibTooling CFG facts + repo-specific rules). "
                                "Decided: " + "; ".join(self.decided) + ". NOT decided (outside what a static rule can settle): " + "; ".join(self.not_decided) + "."),
                "obligations": n_ob,
                "discharged": n_ok,
                "rule_instances": {r: {"checked": c[0], "held": c[1]} for r, c in sorted(self.rule_counts.items())},
                "functions_analysed": sorted(self.functions),
                "units": self.units,
                "configurations": sorted(self.configs),
                "flag_source": self.flag_source,
                "samples": samples,
                "assumed_sites": self.assumed_sites,
                "known_findings": [{"rule": k["rule"], "instance": k["instance"], "what": k["what"]} for k, _ in self.known_hits],
                "fixed_findings": [k.get("what") for k in self.fixed],
                "controls_flagged": self.controls,
                "undischarged": [o for o in self.obligations if not o["ok"]][:50],
                "notes": self.notes,
                "checker_cmd": self.cmd,
                "trusted_base": ["clang 14 parser / CFG builder / constant evaluator", "engine/awsfacts.cc", "sa/*.py rule engine", "rule-instance tables in rules/%s.py" % self.pid],
                "analysis_broken": self.broken_msgs,
            },
            "assumptions": self.assumptions,
            "wall_s": round(wall, 3),
            "violations": len(self.violations),
        }
        os.makedirs(os.path.join(OUTROOT, "evidence"), exist_ok=True)
        with open(os.path.join(OUTROOT, "evidence", self.pid + ".json"), "w") as f:
            json.dump(ev, f, indent=1)
        print("%s [%s]: %d obligations, %d discharged, %d known finding(s), %d violation(s), %d function(s), %.1fs" %
              (self.pid, self.tier, n_ob, n_ok, len(self.known_hits), len(self.violations), len(self.functions), wall))
        for r, c in sorted(self.rule_counts.items()):
            print("  %-28s %3d/%-3d" % (r, c[1], c[0]))
        for l in lines:
            print(l)
        return code
