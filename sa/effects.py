"""Mod-set (write-effect) summaries of functions, as access paths rooted at parameters.

An effect item is one of
  ("p", i, hops, rec, fld, ctype)   a store into the object reached from parameter i: hops is a tuple of field chains,
                                    `p->a.b` = ("a.b",), `p->q->c` = ("q", "c"), `*p` = ("",); (rec, fld) is the innermost
                                    record/field written ("*" = the whole record), ctype the C type of a scalar store
  ("g", name, hops, rec, fld, ctype) the same rooted at a global object
  ("t", rec, fld)                   a store into field fld of some object of record type rec (path unknown)
  ("ty", ctype)                     a scalar store through a pointer of unknown provenance
  ("r", rec)                        anything reachable from an object of type rec (unknown callee got a pointer to it)
None stands for "anything" (an indirect call with untyped pointer arguments, inline asm with a memory clobber).

The summaries are computed bottom-up over the call graph (least fixpoint for recursion).  Writes to the callee's own
locals are not effects.  Logging through the aws_logger vtable is taken to have no effect on the caller's objects.
"""
from .facts import ASSIGN_OPS

MEMW = {"memset": 0, "memcpy": 0, "memmove": 0, "__builtin_memset": 0, "__builtin_memcpy": 0, "__builtin_memmove": 0, "__builtin___memset_chk": 0,
        "__builtin___memcpy_chk": 0, "__builtin___memmove_chk": 0, "aws_secure_zero": 0}
NOEFFECT = {"strlen", "memchr", "memcmp", "strcmp", "strncmp", "strchr", "strrchr", "strstr", "isalnum", "isalpha", "isdigit", "isspace", "isxdigit", "tolower", "toupper",
            "abort", "__assert_fail", "__builtin_expect", "__builtin_unreachable", "__builtin_bswap16", "__builtin_bswap32", "__builtin_bswap64", "__builtin_clz", "__builtin_clzl",
            "__builtin_clzll", "__builtin_ctz", "__builtin_ctzl", "__builtin_ctzll",
            "__ctype_b_loc", "__ctype_tolower_loc", "__ctype_toupper_loc", "__errno_location", "aws_fatal_assert", "fprintf", "fputs", "fflush", "printf", "puts",
            "snprintf", "vsnprintf", "sprintf", "strtod", "strtol", "strtoul", "strtoull", "strtoll", "sscanf", "getenv", "time", "clock_gettime"}
KNOWN = {
    # error registration ends in the application's error handler and the allocator vtable: neither touches the caller's objects
    "aws_raise_error": frozenset(), "aws_raise_error_private": frozenset(), "aws_last_error": frozenset(), "aws_reset_error": frozenset(),
    "aws_mem_acquire": frozenset(), "aws_mem_calloc": frozenset(), "aws_mem_release": frozenset(), "aws_mem_acquire_many": None,
    "aws_mem_realloc": frozenset({("p", 1, ("",), None, None, "void *")}),
    "__builtin_mul_overflow": frozenset({("p", 2, ("",), None, None, "unsigned long")}), "__builtin_add_overflow": frozenset({("p", 2, ("",), None, None, "unsigned long")}),
    "__builtin_sub_overflow": frozenset({("p", 2, ("",), None, None, "unsigned long")}),
    "aws_backtrace_print": frozenset(), "aws_debug_break": frozenset(),
}
ASSUMPTION = "error handlers and allocator implementations do not modify the caller's data structures; logger implementations (aws_logger_vtable.log) do not modify the caller's data structures; libc string/ctype/printf functions write only the character buffers they are given"


def _join(a, b):
    if not a:
        return b
    if not b:
        return a
    return a + "." + b


class Effects:
    def __init__(self, prog):
        self.P = prog
        self.memo = {}
        self._busy = {}

    # ---- access paths inside one function
    def _params(self, f):
        return {p["n"]: i for i, p in enumerate(f.params)}

    def _reassigned(self, f):
        if not hasattr(f, "_eff_reassigned"):
            bad = set()
            for b in f.blocks.values():
                for e in b.elems:
                    for n in f.walk(e):
                        if n["k"] == "bin" and n["op"] in ASSIGN_OPS or (n["k"] == "un" and n["op"] in ("post++", "post--", "pre++", "pre--")):
                            l = f.d(n["a"][0])
                            if l is not None and l["k"] == "var":
                                bad.add(l["n"])
            f._eff_reassigned = bad
        return f._eff_reassigned

    def obj(self, f, n, depth=0):
        """object designated by lvalue n: (root, hops) | "local" | None"""
        n = f.d(n)
        if n is None or depth > 30:
            return None
        k = n["k"]
        if k in ("cast", "decay") or (k == "un" and n["op"] == "paren"):
            return self.obj(f, n["a"][0], depth + 1)
        if k == "var":
            if n["sc"] in ("local", "param"):
                return "local"
            return (("g", n["n"]), ("",))
        if k == "member":
            if n["arrow"]:
                pv = self.ptr(f, n["a"][0], depth + 1)
            else:
                pv = self.obj(f, n["a"][0], depth + 1)
            if pv is None or pv == "local":
                return pv
            root, hops = pv
            return (root, hops[:-1] + (_join(hops[-1], n["f"]),))
        if k == "un" and n["op"] == "deref":
            return self.ptr(f, n["a"][0], depth + 1)
        if k == "index":
            # an element of the array / buffer the base designates: "[]" marks bytes stored into that object
            pv = self.ptr(f, n["a"][0], depth + 1)
            if pv is None or pv == "local":
                return pv
            root, hops = pv
            return (root, hops[:-1] + (_join(hops[-1], "[]"),))
        return None

    def ptr(self, f, n, depth=0):
        """object a pointer-valued expression points to: (root, hops) | "local" | None"""
        n = f.d(n)
        if n is None or depth > 30:
            return None
        k = n["k"]
        if k in ("cast", "decay"):
            if k == "decay":
                return self.obj(f, n["a"][0], depth + 1)
            return self.ptr(f, n["a"][0], depth + 1)
        if k == "var":
            if n["sc"] == "param":
                if n["n"] in self._reassigned(f):
                    return None
                return (("p", self._params(f)[n["n"]]), ("",)) if n["n"] in self._params(f) else None
            if n["sc"] == "local":
                a = f.aliases().get(n["n"])
                if a is not None:
                    return self.ptr(f, a, depth + 1)
                return None
            o = (("g", n["n"]), ("",))
            return (o[0], o[1] + ("",))
        if k == "un" and n["op"] == "addr":
            return self.obj(f, n["a"][0], depth + 1)
        if k == "bin" and n["op"] in ("+", "-"):
            # pointer arithmetic stays inside the object the pointer operand designates
            for side in (0, 1) if n["op"] == "+" else (0,):
                x = f.d(n["a"][side])
                if x is not None and (f.ty(x).get("ptr") or f.ty(x).get("arr") is not None):
                    return self.ptr(f, x, depth + 1)
            return None
        if k == "member" or (k == "un" and n["op"] == "deref"):
            o = self.obj(f, n, depth + 1)
            if o is None or o == "local":
                return None
            return (o[0], o[1] + ("",))
        return None

    # ---- summaries
    def of(self, name):
        if name in KNOWN:
            return KNOWN[name]
        if name in self.memo:
            return self.memo[name]
        if name in self._busy:
            return self._busy[name]
        f = self.P.fns.get(name)
        if f is None:
            return None
        self._busy[name] = frozenset()
        while True:
            r = self._compute(f)
            if r == self._busy[name]:
                break
            self._busy[name] = r
            if r is None:
                break
        del self._busy[name]
        self.memo[name] = r
        return r

    def _item(self, o, rec, fld, ctype):
        if o == "local":
            return None
        if o is None:
            if rec:
                return ("t", rec, fld)
            return ("ty", ctype)
        root, hops = o
        return (root[0], root[1], tuple(hops), rec, fld, ctype)

    def _store_item(self, f, n):
        n = f.d(n)
        t = f.ty(n)
        o = self.obj(f, n)
        if o == "local":
            return None
        if t.get("rec") and not t.get("ptr"):
            return self._item(o, t["rec"], "*", None)
        if n["k"] == "member":
            return self._item(o, n.get("rec"), n["f"], t.get("c"))
        return self._item(o, None, None, t.get("c"))

    def _compute(self, f):
        out = set()
        for ev in f.all_events():
            if ev.kind == "access" and ev.mode in ("w", "rw"):
                it = self._store_item(f, ev.node)
                if it is not None:
                    out.add(it)
            elif ev.kind == "asm":
                if "memory" in (ev.node.get("clobbers") or []):
                    return None
            elif ev.kind == "call":
                r = self._call(f, ev.node)
                if r is None:
                    return None
                out |= r
        return frozenset(out)

    def _recptr(self, f, a):
        """record type behind a pointer argument, looking through casts; (rec, is_const)"""
        x = f.d(a)
        best = None
        while x is not None:
            t = f.ty(x)
            if t.get("ptr") and t.get("rec"):
                best = (t["rec"], t.get("s", "").startswith("const "))
            if x["k"] in ("cast", "decay"):
                x = f.d(x["a"][0])
            else:
                break
        return best

    def is_log_call(self, f, c):
        fx = f.d(c.get("fn")) if c.get("fn") is not None else None
        while fx is not None and fx["k"] in ("cast", "decay"):
            fx = f.d(fx["a"][0])
        return fx is not None and fx["k"] == "member" and fx.get("rec") == "aws_logger_vtable"

    def _call(self, f, c):
        name = c.get("callee")
        out = set()
        if name is None:
            if self.is_log_call(f, c):
                return out
            for a in c["a"]:
                x = f.d(a)
                t = f.ty(x) if x is not None else {}
                if not t.get("ptr") or t.get("fnptr"):
                    continue
                rp = self._recptr(f, a)
                if rp is None:
                    if t.get("s", "").startswith("const "):
                        continue
                    return None  # an untyped pointer handed to unknown code
                if rp[1]:
                    continue
                it = self._item(self.ptr(f, a), rp[0], "*", None)
                if it is not None:
                    out.add(it)
                out.add(("r", rp[0]))
            return out
        if name in NOEFFECT:
            return out
        if name in KNOWN:
            eg = KNOWN[name]
            if eg is None:
                return None
            return self._translate(f, c, eg)
        if name in MEMW:
            a = c["a"][MEMW[name]]
            rp = self._recptr(f, a)
            if rp is not None:
                it = self._item(self.ptr(f, a), rp[0], "*", None)
                if it is not None:
                    out.add(it)
            else:
                pv = self.ptr(f, a)
                if pv is None:
                    out.add(("ty", "unsigned char"))  # raw bytes written somewhere
                elif pv != "local":
                    root, hops = pv
                    out.add((root[0], root[1], tuple(hops[:-1]) + (_join(hops[-1], "[]"),), None, None, "unsigned char"))
            return out
        g = self.P.fns.get(name)
        if g is None or not g.blocks:
            for a in c["a"]:
                rp = self._recptr(f, a)
                if rp is not None and not rp[1]:
                    it = self._item(self.ptr(f, a), rp[0], "*", None)
                    if it is not None:
                        out.add(it)
            return out
        eg = self.of(name)
        if eg is None:
            return None
        return self._translate(f, c, eg)

    def callee_items(self, f, c):
        """callee-relative effect items of one call site (for a caller that applies them to its own state), or None"""
        name = c.get("callee")
        if name is None:
            return frozenset() if self.is_log_call(f, c) else None
        if name in NOEFFECT:
            return frozenset()
        if name in KNOWN:
            return KNOWN[name]
        g = self.P.fns.get(name)
        if g is not None and g.blocks:
            return self.of(name)
        out = set()
        if name in MEMW:
            rp = self._recptr(f, c["a"][MEMW[name]])
            out.add(("p", MEMW[name], ("",), rp[0], "*", None) if rp else ("ty", "unsigned char"))
            return frozenset(out)
        for j, a in enumerate(c["a"]):
            x = f.d(a)
            t = f.ty(x) if x is not None else {}
            if not t.get("ptr") or t.get("fnptr"):
                continue
            rp = self._recptr(f, a)
            if rp is not None:
                if not rp[1]:
                    out.add(("p", j, ("",), rp[0], "*", None))
            elif not t.get("s", "").startswith("const ") and not (x["k"] == "decay" and (f.d(x["a"][0]) or {}).get("k") == "str"):
                cty = (t.get("s") or "").replace("*", "").strip() or None
                out.add(("ty", cty))
                out.add(("p", j, ("",), None, None, cty))  # ... and the very object the argument designates (&local)
        return frozenset(out)

    def _translate(self, f, c, eg):
        out = set()
        for it in eg:
            if it[0] != "p":
                out.add(it)
                continue
            _, j, hops, rec, fld, ctype = it
            if j >= len(c["a"]):
                out.add(("t", rec, fld) if rec else ("ty", ctype))
                continue
            an = f.d(c["a"][j])
            while an is not None and an["k"] == "cast":
                an = f.d(an["a"][0])
            if an is not None and an["k"] == "int" and an.get("v") == 0:
                continue  # a null pointer argument: nothing is stored through it
            pv = self.ptr(f, c["a"][j])
            if pv == "local":
                if len(hops) == 1:
                    continue
                out.add(("t", rec, fld) if rec else ("ty", ctype))
            elif pv is None:
                out.add(("t", rec, fld) if rec else ("ty", ctype))
            else:
                root, h2 = pv
                comb = tuple(h2[:-1]) + (_join(h2[-1], hops[0]),) + tuple(hops[1:])
                out.add((root[0], root[1], comb, rec, fld, ctype))
        return out
