"""Library knowledge given to NUM: struct invariants (exactly the library's documented validity predicates) and callee
summaries of the checked/saturating helpers, allocation and a few constructors.  Every item is listed in the evidence
under `assumptions`."""
from .num import Poly, MAXU, entails, NEGOP

ASSUMPTIONS = [
    "aws_byte_buf valid: len <= capacity and [buffer, buffer+capacity) is the buffer's storage (aws_byte_buf_is_valid)",
    "aws_byte_cursor valid: [ptr, ptr+len) is readable (aws_byte_cursor_is_valid)",
    "aws_array_list valid: length*item_size <= current_size, item_size >= 1, [data, data+current_size) is its storage (aws_array_list_is_valid)",
    "aws_string valid: bytes[0..len] readable including the terminator",
    "struct invariants hold at function entry and are re-established by every library call that may modify the object (checked per function by the INV rule where claimed)",
    "aws_mem_acquire/aws_mem_calloc never return NULL (they abort via AWS_PANIC_OOM) and return a block of the requested size; aws_mem_realloc returns AWS_OP_SUCCESS",
    "checked helpers: aws_add/mul_size_checked succeed iff the exact result fits and then store it; saturating helpers return min(exact, MAX) / max(exact, 0)",
    "type-based aliasing: a store through a struct field may alias the same field of any object of that type, nothing else",
    "memcpy/memmove/memset/snprintf write at most n bytes; snprintf/vsnprintf return the untruncated length or a negative value",
]

SIZE_MAX = MAXU[64]


def target_of(num, st, argnode):
    """lvalue node behind an `&x` / `&p->f` out-parameter"""
    fn = num.fn
    x = fn.d(argnode)
    while x is not None and x["k"] == "cast":
        x = fn.d(x["a"][0])
    if x is not None and x["k"] == "un" and x["op"] == "addr":
        return fn.d(x["a"][0])
    if x is not None:
        t = num.ty(x)
        if t.get("ptr") and t.get("pt") is not None and not t.get("rec"):
            # an out-pointer passed on: the object it designates
            return {"k": "un", "op": "deref", "a": [x], "t": t["pt"], "id": -2, "loc": x.get("loc", [0, 0])}
    return None


class AwsHooks:
    pure = {"aws_byte_cursor_is_valid", "aws_byte_buf_is_valid"}

    def __init__(self, extra=None):
        self.extra = extra  # optional object with call(num, st, node, args) tried first

    # ------------------------------------------------------------ invariants
    def fresh_field(self, num, st, key, rec, f, atom):
        """a field of a library record was read for the first time (or again after being invalidated): relate it to the
        current values of its sibling fields by the record's validity predicate"""
        if st.notes.get("in_inv"):
            return
        st.notes["in_inv"] = True
        try:
            if rec == "aws_byte_buf" and f in ("len", "capacity", "buffer"):
                ln = num.field(st, key, rec, "len")
                cap = num.field(st, key, rec, "capacity")
                buf = num.field(st, key, rec, "buffer")
                st.add(ln - cap)
                self.set_extent(st, buf, cap)
            elif rec == "aws_byte_cursor" and f in ("len", "ptr"):
                ln = num.field(st, key, rec, "len")
                ptr = num.field(st, key, rec, "ptr")
                self.set_extent(st, ptr, ln)
                if getattr(self, "assume_small_views", False):
                    st.add(ln - (SIZE_MAX >> 1))  # a real memory view is shorter than PTRDIFF_MAX
            elif rec == "aws_array_list" and f in ("length", "item_size", "current_size", "data"):
                ln = num.field(st, key, rec, "length")
                isz = num.field(st, key, rec, "item_size")
                cs = num.field(st, key, rec, "current_size")
                data = num.field(st, key, rec, "data")
                st.add(ln * isz - cs)
                st.add(Poly.const(1) - isz)
                self.set_extent(st, data, cs)
        finally:
            st.notes["in_inv"] = False

    @staticmethod
    def set_extent(st, ptrval, size):
        if ptrval is not None and len(ptrval.t) == 1:
            (m, c), = ptrval.t.items()
            if len(m) == 1 and c == 1:
                if m[0] not in st.extent:
                    st.extent[m[0]] = size

    # ------------------------------------------------------------ summaries
    def call(self, num, st, e, args):
        if self.extra is not None:
            r = self.extra.call(num, st, e, args)
            if r is not NotImplemented:
                return r
        c = e.get("callee")
        h = getattr(self, "s_" + c, None) if c else None
        if h is None:
            return NotImplemented
        return h(num, st, e, args)

    # -- checked arithmetic
    def _checked(self, num, st, e, args, op, maxv):
        a, b = args[0], args[1]
        t = num.ty(e)
        flag = num.fresh(st, "chk", None, (-1, 0))
        tgt = target_of(num, st, e["a"][2])
        old = num.val(tgt, st) if tgt is not None else None
        if tgt is not None:
            tt = num.ty(tgt)
            R = Poly.atom(num.fresh(st, "res", tt))
            num.write(tgt, R, st)
        else:
            R = None
        if a is not None and b is not None and R is not None:
            exact = a + b if op == "+" else (a * b if (a.degree() + b.degree() <= 2) else None)
            if exact is not None:
                z = [("cmp", "==", R, exact), ("cmp", "<=", exact, Poly.const(maxv))]
                nz = [("cmp", ">", exact, Poly.const(maxv))]
                if old is not None:
                    nz.append(("cmp", "==", R, old))
                st.cond[flag] = {"z": z, "nz": nz}
        return Poly.atom(flag)

    def s_aws_add_size_checked(self, num, st, e, args):
        return self._checked(num, st, e, args, "+", SIZE_MAX)

    s_aws_add_u64_checked = s_aws_add_size_checked

    def s_aws_add_u32_checked(self, num, st, e, args):
        return self._checked(num, st, e, args, "+", MAXU[32])

    def s_aws_mul_size_checked(self, num, st, e, args):
        return self._checked(num, st, e, args, "*", SIZE_MAX)

    s_aws_mul_u64_checked = s_aws_mul_size_checked

    def s_aws_mul_u32_checked(self, num, st, e, args):
        return self._checked(num, st, e, args, "*", MAXU[32])

    def s_aws_sub_size_checked(self, num, st, e, args):
        a, b = args[0], args[1]
        flag = num.fresh(st, "chk", None, (-1, 0))
        tgt = target_of(num, st, e["a"][2])
        if tgt is not None:
            R = Poly.atom(num.fresh(st, "res", num.ty(tgt)))
            num.write(tgt, R, st)
            if a is not None and b is not None:
                st.cond[flag] = {"z": [("cmp", "==", R, a - b), ("cmp", ">=", a, b)], "nz": [("cmp", "<", a, b)]}
        return Poly.atom(flag)

    s_aws_sub_u64_checked = s_aws_sub_size_checked

    def s_aws_add_size_saturating(self, num, st, e, args, maxv=SIZE_MAX):
        a, b = args[0], args[1]
        t = num.ty(e)
        if a is None or b is None:
            return Poly.atom(num.fresh(st, "sat", t))
        if entails(st, a + b - maxv):
            return a + b
        R = Poly.atom(num.fresh(st, "sat", t))
        st.add(R - (a + b))
        st.add(a - R)
        st.add(b - R)
        return R

    s_aws_add_u64_saturating = s_aws_add_size_saturating

    def s_aws_mul_size_saturating(self, num, st, e, args):
        a, b = args[0], args[1]
        t = num.ty(e)
        if a is None or b is None or a.degree() + b.degree() > 2:
            return Poly.atom(num.fresh(st, "sat", t))
        ex = a * b
        if entails(st, ex - SIZE_MAX):
            return ex
        R = Poly.atom(num.fresh(st, "sat", t))
        st.add(R - ex)
        return R

    s_aws_mul_u64_saturating = s_aws_mul_size_saturating

    def s_aws_sub_size_saturating(self, num, st, e, args):
        a, b = args[0], args[1]
        t = num.ty(e)
        if a is None or b is None:
            return Poly.atom(num.fresh(st, "sat", t))
        if entails(st, b - a):
            return a - b
        R = Poly.atom(num.fresh(st, "sat", t))
        st.add(R - a)
        st.add((a - b) - R)
        return R

    s_aws_sub_u64_saturating = s_aws_sub_size_saturating

    def _minmax(self, num, st, e, args, is_min):
        a, b = args[0], args[1]
        t = num.ty(e)
        if a is None or b is None:
            return Poly.atom(num.fresh(st, "mm", t))
        if entails(st, a - b):
            return a if is_min else b
        if entails(st, b - a):
            return b if is_min else a
        outs = []
        for first in (True, False):
            s = st.copy()
            x, y = (a, b) if first else (b, a)
            # first: a <= b
            from .num import feasible
            if not feasible(s, [x - y]):
                continue
            s.add(x - y)
            s.vals[e["id"]] = (x if is_min else y)
            outs.append(s)
        return outs if outs else Poly.atom(num.fresh(st, "mm", t))

    def s_aws_min_size(self, num, st, e, args):
        return self._minmax(num, st, e, args, True)

    def s_aws_max_size(self, num, st, e, args):
        return self._minmax(num, st, e, args, False)

    s_aws_min_u64 = s_aws_min_size
    s_aws_max_u64 = s_aws_max_size
    s_aws_min_u32 = s_aws_min_size
    s_aws_max_u32 = s_aws_max_size
    s_aws_min_int = s_aws_min_size
    s_aws_max_int = s_aws_max_size

    def s_aws_round_up_to_power_of_two(self, num, st, e, args):
        """success iff the result fits; then result >= n, result >= 1 (re-derived by C16's checks on math.inl)"""
        n = args[0]
        flag = num.fresh(st, "chk", None, (-1, 0))
        tgt = target_of(num, st, e["a"][1])
        if tgt is not None:
            R = Poly.atom(num.fresh(st, "pow2", num.ty(tgt), (1, SIZE_MAX)))
            num.write(tgt, R, st)
            if n is not None:
                st.cond[flag] = {"z": [("cmp", ">=", R, n), ("cmp", ">=", R, Poly.const(1))], "nz": []}
        return Poly.atom(flag)

    # -- allocation
    def s_aws_mem_acquire(self, num, st, e, args):
        R = num.fresh(st, "blk", None, (1, SIZE_MAX))
        if args[1] is not None:
            st.extent[R] = args[1]
        return Poly.atom(R)

    def s_aws_mem_calloc(self, num, st, e, args):
        R = num.fresh(st, "blk", None, (1, SIZE_MAX))
        if args[1] is not None and args[2] is not None and args[1].degree() + args[2].degree() <= 2:
            st.extent[R] = args[1] * args[2]
        return Poly.atom(R)

    def s_aws_mem_realloc(self, num, st, e, args):
        tgt = target_of(num, st, e["a"][1])
        if tgt is not None:
            R = num.fresh(st, "blk", None, (0, SIZE_MAX))
            if args[3] is not None:
                st.extent[R] = args[3]
            num.write(tgt, Poly.atom(R), st)
        else:
            num.havoc_call(e, st)
        return Poly.const(0)

    # -- byte_buf growth (postconditions re-derived from the bodies by the rule that relies on them: C04 SUMMARY)
    def _reserve(self, num, st, e, args, relative):
        from .num import feasible
        bp, amount = args[0], args[1]
        if bp is None or amount is None:
            return NotImplemented
        base = num.base_of(st, bp)
        outs = []
        for mode in ("fits", "grows", "fails"):
            s = st.copy()
            ln = num.field(s, base + "len", "aws_byte_buf", "len")
            cap = num.field(s, base + "capacity", "aws_byte_buf", "capacity")
            req = (ln + amount) if relative else amount
            if mode == "fits":
                new = [req - cap]
            elif mode == "grows":
                new = [cap + 1 - req, req - SIZE_MAX]
            else:
                new = []
            if new and not feasible(s, new):
                continue
            for f in new:
                s.add(f)
            if mode == "grows":
                nb = num.fresh(s, "buffer", None, (1, SIZE_MAX))
                s.env[base + "buffer"] = Poly.atom(nb)
                s.meta[base + "buffer"] = ("aws_byte_buf", "buffer", None)
                s.env[base + "capacity"] = req
                s.meta[base + "capacity"] = ("aws_byte_buf", "capacity", "unsigned long")
                s.extent[nb] = req
            s.vals[e["id"]] = Poly.const(-1 if mode == "fails" else 0)
            outs.append(s)
        return outs

    def s_aws_byte_buf_reserve(self, num, st, e, args):
        return self._reserve(num, st, e, args, False)

    def s_aws_byte_buf_reserve_relative(self, num, st, e, args):
        return self._reserve(num, st, e, args, True)

    def s_aws_mem_release(self, num, st, e, args):
        return None

    def s_aws_raise_error(self, num, st, e, args):
        return Poly.const(-1)

    def s_aws_secure_zero(self, num, st, e, args):
        return None

    # -- libc memory primitives: effect on tracked record objects only
    def _memwrite(self, num, st, e, args, zero=False):
        fn = num.fn
        st.notes.setdefault("memw", []).append((e.get("loc", [0])[0], repr(args[0]) if args[0] is not None else "?"))
        st.notes.setdefault("memw_full", []).append((e.get("loc", [0])[0], args[0], args[2] if len(args) > 2 else None))
        num.cell_store(st, args[0])
        tgt = target_of(num, st, e["a"][0])
        if tgt is not None:
            tt = num.ty(tgt)
            k = num.key(tgt, st)
            if k is not None:
                num.havoc_prefix(st, k)
                if zero and tt.get("rec"):
                    num.init_struct(k, {"k": "zeroinit", "t": tgt.get("t", -1)}, tt, st)
            elif tt.get("rec"):
                num.havoc_rec(st, tt["rec"])
        else:
            x = fn.d(e["a"][0])
            xt = num.ty(x)
            if xt.get("rec"):
                num.havoc_rec(st, xt["rec"])
        return args[0]

    def s_memcpy(self, num, st, e, args):
        return self._memwrite(num, st, e, args)

    s_memmove = s_memcpy
    s___builtin_memcpy = s_memcpy

    def s_memset(self, num, st, e, args):
        z = args[1] is not None and args[1].is_const() and args[1].cval() == 0
        return self._memwrite(num, st, e, args, zero=z)

    s___builtin_memset = s_memset

    def s_memchr(self, num, st, e, args):
        # result r: NULL or p <= r < p+n
        p, n = args[0], args[2]
        R = Poly.atom(num.fresh(st, "memchr", None, (0, SIZE_MAX)))
        if p is not None and n is not None:
            flag = R
            (m,) = R.t.keys()
            nz = [("cmp", ">=", R, p), ("cmp", "<", R, p + n)]
            tb = num._tracked(st, p)
            if tb:
                dv = dict(st.notes.get("derived", {}))
                dv[m[0]] = set(tb)
                st.notes["derived"] = dv
            ch = args[1]
            if ch is not None and ch.is_const():
                # the byte found is the one searched for: it is not a byte already known to hold something else
                for (a2, s2, v2) in st.notes.get("cells", []):
                    lo2, hi2 = num.simple_bounds(st, v2)
                    if s2 == 1 and lo2 is not None and lo2 == hi2 and lo2 != (ch.cval() & 0xFF) and entails(st, a2 - p):
                        if entails(st, p - a2):
                            nz.append(("cmp", ">=", R, a2 + 1))
                st.notes["cells"] = list(st.notes.get("cells", [])) + [(R, 1, Poly.const(ch.cval() & 0xFF))]
            st.cond[m[0]] = {"nz": nz, "z": []}
        return R

    def s_strlen(self, num, st, e, args):
        R = Poly.atom(num.fresh(st, "strlen", None, (0, SIZE_MAX)))
        p = args[0]
        if p is not None and len(p.t) == 1:
            (m, c), = p.t.items()
            if len(m) == 1 and c == 1:
                ext = st.extent.get(m[0])
                if ext is not None:
                    st.add(R + 1 - ext)
                else:
                    st.extent[m[0]] = R + 1
        return R

    # -- cursor advance: success iff len <= cursor->len and both <= SIZE_MAX/2 (derived from the callee's own body, C01)
    def _advance(self, num, st, e, args):
        from .num import feasible
        fn = num.fn
        cp, ln = args[0], args[1]
        if cp is None or ln is None:
            return NotImplemented
        tgt = target_of(num, st, e["a"][0])
        base = (num.key(tgt, st) + ".") if tgt is not None and num.key(tgt, st) else num.base_of(st, cp)
        H = SIZE_MAX >> 1
        outs = []
        # success
        s = st.copy()
        p = num.field(s, base + "ptr", "aws_byte_cursor", "ptr")
        l = num.field(s, base + "len", "aws_byte_cursor", "len")
        new = [ln - l, ln - H, l - H]
        if feasible(s, new):
            for f in new:
                s.add(f)
            if entails(s, Poly.const(1) - l):
                s.add(Poly.const(1) - p)  # a valid cursor with len > 0 has a non-NULL ptr
            s.env[base + "ptr"] = p + ln
            s.env[base + "len"] = l - ln
            for kk in (base + "ptr", base + "len"):
                if kk in s.notes.get("orig", {}):
                    pass
            self._ret_fields(s, e, {"ptr": (p, ("aws_byte_cursor", "ptr", None)), "len": (ln, ("aws_byte_cursor", "len", "unsigned long"))})
            # the returned view [p, p+ln) lies inside the object p designates; make it bounds-checkable on its own too
            s.vals[e["id"]] = None
            s.notes.setdefault("adv_ok", {})[e["id"]] = True
            outs.append(s)
        # failure: NULL view, cursor unchanged; one of the three clauses of the guard fails
        for viol in (lambda p_, l_: Poly.const(1) + l_ - ln, lambda p_, l_: Poly.const(H + 1) - ln, lambda p_, l_: Poly.const(H + 1) - l_):
            s2 = st.copy()
            p2 = num.field(s2, base + "ptr", "aws_byte_cursor", "ptr")
            l2 = num.field(s2, base + "len", "aws_byte_cursor", "len")
            f_ = viol(p2, l2)
            if not feasible(s2, [f_]):
                continue
            s2.add(f_)
            self._ret_fields(s2, e, {"ptr": (Poly.const(0), ("aws_byte_cursor", "ptr", None)), "len": (Poly.const(0), ("aws_byte_cursor", "len", "unsigned long"))})
            s2.vals[e["id"]] = None
            outs.append(s2)
        return outs

    s_aws_byte_cursor_advance = _advance

    def _cbase(self, num, st, e, i, args):
        tgt = target_of(num, st, e["a"][i])
        k = num.key(tgt, st) if tgt is not None else None
        if k:
            return k + "."
        return num.base_of(st, args[i]) if args[i] is not None else None

    def s_aws_byte_cursor_find_exact(self, num, st, e, args):
        """success: 1 <= to_find.len <= input.len and the result is the suffix of input starting at the match, which
        lies wholly inside input; failure: -1, result untouched.  (Postcondition re-derived from the callee's body by
        the rule that uses it: C04 SUMMARY.)"""
        bi, bt, bo = self._cbase(num, st, e, 0, args), self._cbase(num, st, e, 1, args), self._cbase(num, st, e, 2, args)
        if not (bi and bt and bo):
            return NotImplemented
        outs = []
        s = st.copy()
        ip, il = num.field(s, bi + "ptr", "aws_byte_cursor", "ptr"), num.field(s, bi + "len", "aws_byte_cursor", "len")
        tl = num.field(s, bt + "len", "aws_byte_cursor", "len")
        k = Poly.atom(num.fresh(s, "match_at", None, (0, SIZE_MAX)))
        from .num import feasible
        new = [Poly.const(1) - tl, tl - il, k + tl - il, Poly.const(1) - ip]
        if feasible(s, new):
            for f in new:
                s.add(f)
            for fld, v in (("ptr", ip + k), ("len", il - k)):
                num.havoc_prefix(s, bo + fld)
                s.env[bo + fld] = v
                s.meta[bo + fld] = ("aws_byte_cursor", fld, None if fld == "ptr" else "unsigned long")
            s.vals[e["id"]] = Poly.const(0)
            outs.append(s)
        s2 = st.copy()
        s2.vals[e["id"]] = Poly.const(-1)
        outs.append(s2)
        return outs
    s_aws_byte_cursor_advance_nospec = _advance

    def s_aws_nospec_mask(self, num, st, e, args):
        """all ones when index < bound (and both below SIZE_MAX/2), else zero"""
        i, b = args[0], args[1]
        H = SIZE_MAX >> 1
        if i is not None and b is not None and entails(st, i + 1 - b) and entails(st, b - H - 1) and entails(st, i - H):
            return Poly.const(SIZE_MAX)
        return Poly.atom(num.fresh(st, "mask", num.ty(e)))

    def s_aws_lookup_table_hex_to_num_get(self, num, st, e, args):
        a = num.fresh(st, "hex_to_num", None, (1, SIZE_MAX))
        st.extent[a] = Poly.const(256)
        return Poly.atom(a)

    def s_aws_lookup_table_to_lower_get(self, num, st, e, args):
        a = num.fresh(st, "to_lower", None, (1, SIZE_MAX))
        st.extent[a] = Poly.const(256)
        return Poly.atom(a)

    # -- array list growth (re-derived from its own body under C09)
    def s_aws_array_list_ensure_capacity(self, num, st, e, args):
        from .num import feasible
        lp, idx = args[0], args[1]
        if lp is None or idx is None:
            return NotImplemented
        base = num.base_of(st, lp)
        outs = []
        s = st.copy()
        isz = num.field(s, base + "item_size", "aws_array_list", "item_size")
        cs0 = num.field(s, base + "current_size", "aws_array_list", "current_size")
        ln = num.field(s, base + "length", "aws_array_list", "length")
        need = (idx + 1) * isz if idx.degree() + isz.degree() <= 2 else None
        # success: storage (possibly re-allocated) of at least (index+1)*item_size bytes
        ncs = Poly.atom(num.fresh(s, "current_size", None, (0, SIZE_MAX)))
        nd = num.fresh(s, "data", None, (1, SIZE_MAX))
        s.env[base + "current_size"] = ncs
        s.meta[base + "current_size"] = ("aws_array_list", "current_size", "unsigned long")
        s.env[base + "data"] = Poly.atom(nd)
        s.meta[base + "data"] = ("aws_array_list", "data", None)
        s.extent[nd] = ncs
        s.add(cs0 - ncs)
        s.add(idx + 1 - SIZE_MAX)
        if need is not None:
            s.add(need - ncs)
        s.vals[e["id"]] = Poly.const(0)
        outs.append(s)
        s2 = st.copy()
        s2.vals[e["id"]] = Poly.const(-1)
        outs.append(s2)
        return outs

    def s_aws_array_list_calc_necessary_size(self, num, st, e, args):
        lp, idx = args[0], args[1]
        if lp is None or idx is None:
            return NotImplemented
        outs = []
        s = st.copy()
        isz = num.field(s, num.base_of(s, lp) + "item_size", "aws_array_list", "item_size")
        tgt = target_of(num, s, e["a"][2])
        if tgt is not None and idx.degree() + isz.degree() <= 2:
            R = Poly.atom(num.fresh(s, "necessary", num.ty(tgt), (0, SIZE_MAX)))
            num.write(tgt, R, s)
            s.add_eq(R - (idx + 1) * isz)
            s.add(idx + 1 - SIZE_MAX)
            s.vals[e["id"]] = Poly.const(0)
            outs.append(s)
        s2 = st.copy()
        tgt2 = target_of(num, s2, e["a"][2])
        if tgt2 is not None:
            num.write(tgt2, None, s2)
        s2.vals[e["id"]] = Poly.const(-1)
        outs.append(s2)
        return outs

    # -- array list / misc accessors
    def s_aws_array_list_length(self, num, st, e, args):
        fn = num.fn
        x = fn.d(e["a"][0])
        p = args[0]
        if p is None:
            return Poly.atom(num.fresh(st, "len", num.ty(e)))
        key = num.base_of(st, p) + "length"
        if key in st.env:
            return st.env[key]
        return num.field(st, key, "aws_array_list", "length")

    # -- constructors returning a view by value
    def _ret_fields(self, st, e, fields):
        st.notes.setdefault("ret_fields", {})[e["id"]] = fields

    def s_aws_byte_cursor_from_array(self, num, st, e, args):
        p, n = args[0], args[1]
        if p is not None and n is not None:
            self._ret_fields(st, e, {"ptr": (p, ("aws_byte_cursor", "ptr", None)), "len": (n, ("aws_byte_cursor", "len", "unsigned long"))})
        return None

    def s_aws_byte_cursor_from_buf(self, num, st, e, args):
        p = args[0]
        if p is not None:
            k = num.base_of(st, p)
            b = num.field(st, k + "buffer", "aws_byte_buf", "buffer")
            ln = num.field(st, k + "len", "aws_byte_buf", "len")
            self._ret_fields(st, e, {"ptr": (b, ("aws_byte_cursor", "ptr", None)), "len": (ln, ("aws_byte_cursor", "len", "unsigned long"))})
        return None

    def s_aws_byte_cursor_from_c_str(self, num, st, e, args):
        p = args[0]
        if p is not None:
            n = self.s_strlen(num, st, e, [p])
            self._ret_fields(st, e, {"ptr": (p, ("aws_byte_cursor", "ptr", None)), "len": (n, ("aws_byte_cursor", "len", "unsigned long"))})
        return None

    def s_aws_byte_cursor_from_string(self, num, st, e, args):
        p = args[0]
        if p is not None:
            k = num.base_of(st, p)
            ln = num.field(st, k + "len", "aws_string", "len")
            a = num.fresh(st, "bytes", None, (1, SIZE_MAX))
            st.extent[a] = ln + 1
            self._ret_fields(st, e, {"ptr": (Poly.atom(a), ("aws_byte_cursor", "ptr", None)), "len": (ln, ("aws_byte_cursor", "len", "unsigned long"))})
        return None

    def s_aws_byte_buf_from_empty_array(self, num, st, e, args):
        p, n = args[0], args[1]
        if p is not None and n is not None:
            self._ret_fields(st, e, {"buffer": (p, ("aws_byte_buf", "buffer", None)), "len": (Poly.const(0), ("aws_byte_buf", "len", "unsigned long")),
                                     "capacity": (n, ("aws_byte_buf", "capacity", "unsigned long"))})
        return None

    def s_aws_byte_buf_from_array(self, num, st, e, args):
        p, n = args[0], args[1]
        if p is not None and n is not None:
            self._ret_fields(st, e, {"buffer": (p, ("aws_byte_buf", "buffer", None)), "len": (n, ("aws_byte_buf", "len", "unsigned long")),
                                     "capacity": (n, ("aws_byte_buf", "capacity", "unsigned long"))})
        return None


# ----------------------------------------------------------------------------- bounds obligations
def in_bounds(st, D, n):
    """is [D, D+n) inside an object whose extent is known?  returns ('ok'|'fail'|'untracked', detail).
    Candidate objects: tracked pointer atoms occurring in D first, then every other tracked object of the state
    (a pointer may have been advanced by an opaque amount and re-bounded by comparisons against another view)."""
    if D is None or n is None:
        return ("untracked", "address or size not numeric")
    direct = []
    for m, c in D.t.items():
        if len(m) == 1 and c == 1 and m[0] in st.extent:
            direct.append(m[0])
    why = []
    datoms = D.atoms()
    others = [a for a in st.extent if a not in direct]
    reach = None
    for a in direct + others:
        off = D - Poly.atom(a)
        ext = st.extent[a]
        if a not in direct:
            # only objects that the state relates to D at all (through a chain of facts)
            if reach is None:
                reach = set(datoms)
                fas = [f.atoms() for f in st.facts]
                grew = True
                while grew:
                    grew = False
                    for fa in fas:
                        if (fa & reach) and not fa <= reach:
                            reach |= fa
                            grew = True
            if a not in reach:
                continue
        lo_ok = entails(st, -off)
        hi_ok = lo_ok and entails(st, off + n - ext)
        if lo_ok and hi_ok:
            return ("ok", "offset %r, size %r within %r bytes at %s" % (off, n, ext, a), a, off)
        if a in direct or lo_ok:
            # (an address the state places at or after the start of a tracked object is an address into that object)
            why.append("object %s: offset %r %s 0; offset+size %r %s extent %r" % (a, off, ">=" if lo_ok else "NOT >=", off + n, "<=" if hi_ok else "NOT <=", ext))
    if n.is_const() and n.cval() == 0:
        return ("ok", "zero-length access")
    if not why:
        return ("untracked", "no tracked object in %r" % D)
    return ("fail", "; ".join(why))


MEMFNS = {
    # callee: list of (pointer arg index, size arg index or ('const', k), mode)
    "memcpy": [(0, 2, "w"), (1, 2, "r")],
    "__builtin_memcpy": [(0, 2, "w"), (1, 2, "r")],
    "memmove": [(0, 2, "w"), (1, 2, "r")],
    "memset": [(0, 2, "w")],
    "__builtin_memset": [(0, 2, "w")],
    "memchr": [(0, 2, "r")],
    "memcmp": [(0, 2, "r"), (1, 2, "r")],
    "snprintf": [(0, 1, "w")],
    "vsnprintf": [(0, 1, "w")],
    "strftime": [(0, 1, "w")],
    "aws_secure_zero": [(0, 1, "w")],
    "fread": [(0, "mul12", "w")],
}
